// Witness for C15 ("... across restarts and crashes ... after a restore from seed the next path it
// hands out lies beyond every path found on chain"), run against the real code.
//
// scan() restores the child derivation index at its very end, and only from the outputs it had to
// restore in this run. If the process dies after restore_missing_output() has committed outputs but
// before that last step, the next scan finds (some of) the outputs already present, so they no longer
// count: the index stays behind a path that is on chain and the next receive re-uses it.
//
// The crash is emulated without a hook in the wallet: the restoring scan runs in its own thread and
// is frozen for good while it is inside the restore loop (a watcher takes the wallet instance mutex
// when the second "Restoring" message arrives and never releases it, so the scan blocks at its next
// wallet_lock! - at the latest at the one in front of the index step). Nothing that thread would have
// done afterwards happens, exactly as if the process had died there. The wallet directory is then
// copied (no write transaction is open) and the copy is opened as a wallet of its own: the state a
// restarted process finds. A scan is run to completion on it, one more payment is received, and no
// derivation path may be used twice.
#[macro_use]
extern crate log;
extern crate grin_wallet_controller as wallet;
extern crate grin_wallet_impls as impls;

use grin_core as core;
use grin_util as util;

use self::core::consensus;
use grin_wallet_libwallet as libwallet;
use impls::test_framework::{self, LocalWalletClient};
use libwallet::api_impl::owner_updater::StatusMessage;
use libwallet::{InitTxArgs, Slate};
use std::collections::HashSet;
use std::sync::atomic::Ordering;
use std::sync::mpsc::channel;
use std::thread;
use std::time::Duration;
use util::ZeroingString;

#[macro_use]
mod common;
use common::{clean_output_dir, create_wallet_proxy, setup};

const DIR: &str = "test_output/probe_interrupted_restore";
const SEED: &str = "affair pistol cancel crush garment candy ancient flag work \
	market crush dry stand focus mutual weapon offer ceiling rival turn team spring \
	where swift";

macro_rules! pay {
	($miner:expr, $mask:expr, $client:expr, $dest:expr, $amount:expr) => {{
		let mut finalized: Option<Slate> = None;
		wallet::controller::owner_single_use(Some($miner.clone()), $mask, None, |api, m| {
			let args = InitTxArgs {
				src_acct_name: None,
				amount: $amount,
				minimum_confirmations: 2,
				max_outputs: 500,
				num_change_outputs: 1,
				selection_strategy_is_use_all: false,
				..Default::default()
			};
			let slate_i = api.init_send_tx(m, args)?;
			let slate = $client.send_tx_slate_direct($dest, &slate_i)?;
			api.tx_lock_outputs(m, &slate)?;
			finalized = Some(api.finalize_tx(m, &slate)?);
			Ok(())
		})?;
		finalized.unwrap()
	}};
}

macro_rules! post {
	($miner:expr, $mask:expr, $slate:expr) => {
		wallet::controller::owner_single_use(Some($miner.clone()), $mask, None, |api, m| {
			api.post_tx(m, $slate, false)?; // mines a block
			Ok(())
		})?
	};
}

fn copy_dir(from: &std::path::Path, to: &std::path::Path) {
	std::fs::create_dir_all(to).unwrap();
	for e in std::fs::read_dir(from).unwrap() {
		let e = e.unwrap();
		if e.file_type().unwrap().is_dir() {
			copy_dir(&e.path(), &to.join(e.file_name()));
		} else {
			std::fs::copy(e.path(), to.join(e.file_name())).unwrap();
		}
	}
}

fn probe_impl() -> Result<(), libwallet::Error> {
	let seed_phrase = Some(ZeroingString::from(SEED));
	let mut wallet_proxy = create_wallet_proxy(DIR);
	let chain = wallet_proxy.chain.clone();
	let stopper = wallet_proxy.running.clone();
	create_wallet_and_add!(m_client, miner, miner_mask_i, DIR, "miner", None, &mut wallet_proxy, false);
	let miner_mask = (&miner_mask_i).as_ref();
	create_wallet_and_add!(client1, wallet1, mask1_i, DIR, "wallet1", seed_phrase, &mut wallet_proxy, false);
	create_wallet_and_add!(client2, wallet2, mask2_i, DIR, "wallet2", seed_phrase, &mut wallet_proxy, false);
	let _ = (&client1, &client2, &wallet1, &mask1_i);
	let proxy_thread = thread::spawn(move || {
		if let Err(e) = wallet_proxy.run() {
			error!("Wallet Proxy error: {}", e);
		}
		wallet_proxy
	});
	let base = consensus::GRIN_BASE;
	let _ = test_framework::award_blocks_to_wallet(&chain, miner.clone(), miner_mask, 12, false);
	// A gets path 0 but reaches the chain after B (path 1)
	let slate_a = pay!(miner, miner_mask, m_client, "wallet1", base * 1);
	let slate_b = pay!(miner, miner_mask, m_client, "wallet1", base * 2);
	post!(miner, miner_mask, &slate_b);
	post!(miner, miner_mask, &slate_a);
	let _ = test_framework::award_blocks_to_wallet(&chain, miner.clone(), miner_mask, 3, false);

	// restore the seed into the empty wallet2; the scan is frozen inside the restore loop
	let (tx, rx) = channel();
	let (frozen_tx, frozen_rx) = channel();
	let w2 = wallet2.clone();
	thread::spawn(move || {
		let mut restoring = 0;
		while let Ok(m) = rx.recv() {
			if let StatusMessage::Scanning(s, _) = m {
				if s.contains("Restoring") {
					restoring += 1;
					if restoring == 2 {
						// the first output (B, path 1) is committed at this point
						std::mem::forget(w2.lock());
						let _ = frozen_tx.send(());
					}
				}
			}
		}
	});
	let w2 = wallet2.clone();
	let m2 = mask2_i.clone();
	thread::spawn(move || {
		core::global::set_local_chain_type(core::global::ChainTypes::AutomatedTesting);
		let r = libwallet::api_impl::owner::scan(w2, (&m2).as_ref(), None, false, &Some(tx));
		// never reached: the scan cannot get past the frozen wallet mutex
		println!("THE SCAN WAS NOT INTERRUPTED: {:?}", r.is_ok());
	});
	frozen_rx
		.recv_timeout(Duration::from_secs(60))
		.expect("the scan never got to its second restore");
	thread::sleep(Duration::from_millis(500));

	// "restart": the wallet directory as the dead process left it, opened as a wallet of its own
	stopper.store(false, Ordering::Relaxed);
	let mut wallet_proxy = proxy_thread.join().unwrap();
	copy_dir(
		std::path::Path::new(&format!("{}/wallet2", DIR)),
		std::path::Path::new(&format!("{}/wallet2b", DIR)),
	);
	open_wallet_and_add!(client2b, wallet2b, mask2b_i, DIR, "wallet2b", &mut wallet_proxy, false);
	let mask2b = (&mask2b_i).as_ref();
	let _ = &client2b;
	let stopper = wallet_proxy.running.clone();
	thread::spawn(move || {
		if let Err(e) = wallet_proxy.run() {
			error!("Wallet Proxy error: {}", e);
		}
	});
	thread::sleep(Duration::from_millis(200));

	let mut highest_on_chain = 0;
	wallet::controller::owner_single_use(Some(wallet2b.clone()), mask2b, None, |api, m| {
		let before = api.retrieve_outputs(m, false, false, None)?.1;
		println!("after the interruption the wallet holds {} restored output(s)", before.len());
		assert!(!before.is_empty());
		api.scan(m, None, false)?;
		let (_, info) = api.retrieve_summary_info(m, true, 1)?;
		assert_eq!(info.amount_currently_spendable, base * 3);
		let outputs = api.retrieve_outputs(m, false, true, None)?.1;
		assert_eq!(outputs.len(), 2);
		highest_on_chain = outputs.iter().map(|o| o.output.n_child).max().unwrap();
		Ok(())
	})?;
	assert_eq!(highest_on_chain, 1);

	let slate_c = pay!(miner, miner_mask, m_client, "wallet2b", base * 4);
	post!(miner, miner_mask, &slate_c);
	let _ = test_framework::award_blocks_to_wallet(&chain, miner.clone(), miner_mask, 3, false);

	let mut problems = vec![];
	wallet::controller::owner_single_use(Some(wallet2b.clone()), mask2b, None, |api, m| {
		let outputs = api.retrieve_outputs(m, true, true, None)?.1;
		let mut seen = HashSet::new();
		for o in outputs.iter() {
			println!(
				"restarted wallet output: value {} key_id {} n_child {} status {:?}",
				o.output.value, o.output.key_id, o.output.n_child, o.output.status
			);
			if !seen.insert(o.output.key_id.clone()) {
				problems.push(format!("derivation path {} is used by two outputs", o.output.key_id));
			}
		}
		let new_out = outputs.iter().find(|o| o.output.value == base * 4).expect("the new output");
		if new_out.output.n_child <= highest_on_chain {
			problems.push(format!(
				"path handed out after the restore ({}) is not beyond the paths found on chain (up to {})",
				new_out.output.n_child, highest_on_chain
			));
		}
		Ok(())
	})?;
	stopper.store(false, Ordering::Relaxed);
	thread::sleep(Duration::from_millis(200));
	assert!(problems.is_empty(), "{:#?}", problems);
	Ok(())
}

#[test]
fn probe_interrupted_restore() {
	setup(DIR);
	if let Err(e) = probe_impl() {
		panic!("Libwallet Error: {}", e);
	}
	clean_output_dir(DIR);
}
