// Probe for side observations on the UNCHANGED code (property C01).
// Intended location while running: controller/tests/probe_c01_side.rs
//   CARGO_NET_OFFLINE=true CARGO_TARGET_DIR=/tmp/seed/target-C01h cargo test --offline \
//     -p grin_wallet_controller --test probe_c01_side -- --nocapture --test-threads 1
#[macro_use]
extern crate log;
extern crate grin_wallet_controller as wallet;
extern crate grin_wallet_impls as impls;
extern crate grin_wallet_libwallet as libwallet;

use self::libwallet::{InitTxArgs, Slate};
use impls::test_framework::{self, LocalWalletClient};
use std::sync::mpsc::channel;
use std::thread;
use std::time::Duration;

#[macro_use]
mod common;
use common::{create_wallet_proxy, setup};

/// S1 (hypothesis from reading, REFUTED by running): more eligible outputs than `max_outputs`, and an
/// amount larger than the wallet's funds, might loop forever in select_coins_and_fee. It does not:
/// the re-selection inside the loop is called with the shadowed `max_outputs` (= number of eligible
/// outputs), so the second pass returns every eligible output and the loop ends in NotEnoughFunds.
#[test]
fn side_insufficient_funds_with_more_outputs_than_max_outputs_returns() {
	let test_dir = "test_output/probe_c01_side_hang";
	setup(test_dir);
	let mut wallet_proxy = create_wallet_proxy(test_dir);
	let chain = wallet_proxy.chain.clone();
	create_wallet_and_add!(
		client1,
		wallet1,
		mask1_i,
		test_dir,
		"wallet1",
		None,
		&mut wallet_proxy,
		false
	);
	let _ = &client1;
	let mask1 = (&mask1_i).as_ref();
	thread::spawn(move || {
		if let Err(e) = wallet_proxy.run() {
			error!("Wallet Proxy error: {}", e);
		}
	});
	test_framework::award_blocks_to_wallet(&chain, wallet1.clone(), mask1, 10, false).unwrap();

	let (tx, rx) = channel();
	let w = wallet1.clone();
	let mask = mask1_i.clone();
	thread::spawn(move || {
		// the chain type is thread local
		grin_core::global::set_local_chain_type(grin_core::global::ChainTypes::AutomatedTesting);
		let res = wallet::controller::owner_single_use(Some(w), mask.as_ref(), None, |api, m| {
			let args = InitTxArgs {
				src_acct_name: None,
				amount: 1_000_000_000_000, // 1000 grin, the wallet holds 600
				minimum_confirmations: 2,
				max_outputs: 2, // fewer than the number of eligible outputs
				num_change_outputs: 1,
				selection_strategy_is_use_all: false,
				estimate_only: Some(true),
				..Default::default()
			};
			let r = api.init_send_tx(m, args);
			println!("init_send_tx returned: {:?}", r.as_ref().map(|s| s.amount));
			assert!(r.is_err());
			Ok(())
		});
		let _ = tx.send(res.is_ok());
	});
	match rx.recv_timeout(Duration::from_secs(30)) {
		Ok(_) => println!("S1: init_send_tx returned (no hang)"),
		Err(std::sync::mpsc::RecvTimeoutError::Timeout) => {
			panic!("S1: init_send_tx did not return within 30 s: input selection loops forever")
		}
		Err(e) => panic!("S1: probe thread died: {:?}", e),
	}
}

/// S2: a source account name that does not exist is not an error: the payment is silently
/// built from the active account.
#[test]
fn side_unknown_source_account_falls_back_to_active_account() {
	let test_dir = "test_output/probe_c01_side_acct";
	setup(test_dir);
	let mut wallet_proxy = create_wallet_proxy(test_dir);
	let chain = wallet_proxy.chain.clone();
	create_wallet_and_add!(
		client1,
		wallet1,
		mask1_i,
		test_dir,
		"wallet1",
		None,
		&mut wallet_proxy,
		false
	);
	let _ = &client1;
	let mask1 = (&mask1_i).as_ref();
	thread::spawn(move || {
		if let Err(e) = wallet_proxy.run() {
			error!("Wallet Proxy error: {}", e);
		}
	});
	test_framework::award_blocks_to_wallet(&chain, wallet1.clone(), mask1, 6, false).unwrap();
	let mut slate = Slate::blank(2, false);
	let res = wallet::controller::owner_single_use(Some(wallet1.clone()), mask1, None, |api, m| {
		let args = InitTxArgs {
			src_acct_name: Some("no_such_account".to_owned()),
			amount: 10_000_000_000,
			minimum_confirmations: 2,
			max_outputs: 500,
			num_change_outputs: 1,
			selection_strategy_is_use_all: false,
			..Default::default()
		};
		slate = api.init_send_tx(m, args)?;
		api.tx_lock_outputs(m, &slate)?;
		let (_, info) = api.retrieve_summary_info(m, false, 1)?;
		println!("S2: locked in the default account: {}", info.amount_locked);
		Ok(())
	});
	assert!(
		res.is_err(),
		"S2: a payment from a non-existent source account was built from the active account"
	);
}

/// S3 (sanity sweep, no violation expected): extreme parameters are errors, not panics, and leave
/// nothing reserved.
#[test]
fn side_extreme_parameters_are_errors() {
	let test_dir = "test_output/probe_c01_side_extreme";
	setup(test_dir);
	let mut wallet_proxy = create_wallet_proxy(test_dir);
	let chain = wallet_proxy.chain.clone();
	create_wallet_and_add!(
		client1,
		wallet1,
		mask1_i,
		test_dir,
		"wallet1",
		None,
		&mut wallet_proxy,
		false
	);
	let _ = &client1;
	let mask1 = (&mask1_i).as_ref();
	thread::spawn(move || {
		if let Err(e) = wallet_proxy.run() {
			error!("Wallet Proxy error: {}", e);
		}
	});
	test_framework::award_blocks_to_wallet(&chain, wallet1.clone(), mask1, 8, false).unwrap();
	wallet::controller::owner_single_use(Some(wallet1.clone()), mask1, None, |api, m| {
		let fee2 = grin_core::libtx::tx_fee(1, 2, 1);
		let cases: Vec<(u64, bool, u32, u32, bool, Option<bool>)> = vec![
			(u64::MAX, false, 500, 1, false, None),
			(u64::MAX, true, 500, 1, true, None),
			(u64::MAX - 1_000_000, false, 500, 1, true, Some(true)),
			(0, false, 500, 1, false, None),
			(1, true, 500, 1, false, None),
			(10_000_000_000, false, 500, 0, false, None),
			(10_000_000_000, false, 0, 1, false, None),
			// change of 2 nanogrin into 3 outputs
			(60_000_000_000 - grin_core::libtx::tx_fee(1, 4, 1) - 2, false, 500, 3, false, None),
			// one nanogrin short of being able to pay the fee with change
			(60_000_000_000 - fee2 + 1, false, 1, 1, false, None),
		];
		for (amount, incl, max_outputs, nchange, use_all, late) in cases {
			let args = InitTxArgs {
				src_acct_name: None,
				amount,
				amount_includes_fee: Some(incl),
				minimum_confirmations: 2,
				max_outputs,
				num_change_outputs: nchange,
				selection_strategy_is_use_all: use_all,
				late_lock: late,
				..Default::default()
			};
			let r = api.init_send_tx(m, args);
			println!(
				"S3: amount {} incl {} max_outputs {} change_outputs {} use_all {} late {:?} -> {:?}",
				amount,
				incl,
				max_outputs,
				nchange,
				use_all,
				late,
				r.as_ref().map(|s| (s.amount, s.fee_fields.fee())).map_err(|e| format!("{}", e))
			);
		}
		let (_, info) = api.retrieve_summary_info(m, false, 1)?;
		assert_eq!(info.amount_locked, 0);
		Ok(())
	})
	.unwrap();
}
