import sys
root=sys.argv[1]
p=root+'/libwallet/src/api_impl/owner.rs'
s=open(p).read()
old1="""	let parent_key_id = match &args.src_acct_name {
		Some(d) => {
			let pm = w.get_acct_path(d.clone())?;
			match pm {
				Some(p) => p.path,
				None => w.parent_key_id(),
			}
		}
		None => w.parent_key_id(),
	};
"""
new1="""	let parent_key_id = match &args.src_acct_name {
		Some(d) => {
			let pm = w.get_acct_path(d.clone())?;
			match pm {
				Some(p) => p.path,
				// a source account that does not exist is not the active account
				None => return Err(Error::UnknownAccountLabel(d.clone())),
			}
		}
		None => w.parent_key_id(),
	};
"""
assert s.count(old1)==1
s=s.replace(old1,new1)
old2="""	let parent_key_id = match args.src_acct_name {
		Some(d) => {
			let pm = w.get_acct_path(d)?;
			match pm {
				Some(p) => p.path,
				None => w.parent_key_id(),
			}
		}
		None => w.parent_key_id(),
	};
"""
new2="""	let parent_key_id = match args.src_acct_name {
		Some(d) => {
			let pm = w.get_acct_path(d.clone())?;
			match pm {
				Some(p) => p.path,
				// a source account that does not exist is not the active account
				None => return Err(Error::UnknownAccountLabel(d)),
			}
		}
		None => w.parent_key_id(),
	};
"""
assert s.count(old2)==1
s=s.replace(old2,new2)
open(p,'w').write(s)
