// Copyright 2021 The Grin Developers
// Licensed under the Apache License, Version 2.0 (the "License");
// you may not use this file except in compliance with the License.
// You may obtain a copy of the License at
//
//     http://www.apache.org/licenses/LICENSE-2.0
//
// Unless required by applicable law or agreed to in writing, software
// distributed under the License is distributed on an "AS IS" BASIS,
// WITHOUT WARRANTIES OR CONDITIONS OF ANY KIND, either express or implied.
// See the License for the specific language governing permissions and
// limitations under the License.

//! SIDE OBSERVATION PROBE (unchanged code). Intended location when run:
//! controller/tests/probe_ttl_account_switch_race.rs
//!
//! Step 5 of update_wallet_state re-reads w.parent_key_id() when it cancels an expired
//! entry, although the entries were collected for the account that was active when the
//! refresh started. If the active account is switched while the refresh is running
//! (updater thread / second API client), the expired entry's per-account id is cancelled
//! in the OTHER account: a pending send without a cutoff is cancelled, the expired one
//! is not. This probe tries to hit that window with a second thread and prints what it
//! observed; it asserts nothing about the outcome (timing dependent).
#[macro_use]
extern crate log;
extern crate grin_wallet_controller as wallet;
extern crate grin_wallet_impls as impls;
extern crate grin_wallet_util;

use grin_wallet_libwallet as libwallet;
use impls::test_framework::{self, LocalWalletClient};
use libwallet::{InitTxArgs, OutputStatus, Slate, TxLogEntryType};
use std::sync::atomic::Ordering;
use std::thread;
use std::time::Duration;

#[macro_use]
mod common;
use common::{clean_output_dir, create_wallet_proxy, setup};

fn probe_impl(test_dir: &'static str) -> Result<(), libwallet::Error> {
	let mut wallet_proxy = create_wallet_proxy(test_dir);
	let chain = wallet_proxy.chain.clone();
	let stopper = wallet_proxy.running.clone();

	create_wallet_and_add!(
		client1,
		wallet1,
		mask1_i,
		test_dir,
		"wallet1",
		None,
		&mut wallet_proxy,
		false
	);
	let mask1 = (&mask1_i).as_ref();

	create_wallet_and_add!(
		client2,
		wallet2,
		mask2_i,
		test_dir,
		"wallet2",
		None,
		&mut wallet_proxy,
		false
	);
	let _mask2 = (&mask2_i).as_ref();
	let _ = (&client2, &wallet2);

	thread::spawn(move || {
		if let Err(e) = wallet_proxy.run() {
			error!("Wallet Proxy error: {}", e);
		}
	});

	let amount = 30_000_000_000;

	// a second account in the sending wallet
	wallet::controller::owner_single_use(Some(wallet1.clone()), mask1, None, |api, m| {
		api.create_account_path(m, "account1")?;
		Ok(())
	})?;

	// 5 blocks into 'default', then 5 blocks into 'account1': both tx logs hold ids 0..=4
	let _ = test_framework::award_blocks_to_wallet(&chain, wallet1.clone(), mask1, 5, false);
	wallet::controller::owner_single_use(Some(wallet1.clone()), mask1, None, |api, m| {
		api.set_active_account(m, "account1")?;
		Ok(())
	})?;
	let _ = test_framework::award_blocks_to_wallet(&chain, wallet1.clone(), mask1, 5, false);

	// account1: a pending send WITHOUT a cutoff
	let mut slate_a1 = Slate::blank(1, false);
	let mut id_a1 = 0;
	let mut locked_a1 = 0;
	let mut unconfirmed_a1 = 0;
	wallet::controller::owner_single_use(Some(wallet1.clone()), mask1, None, |api, m| {
		let (refreshed, _) = api.retrieve_summary_info(m, true, 1)?;
		assert!(refreshed);
		let args = InitTxArgs {
			src_acct_name: None,
			amount: amount,
			minimum_confirmations: 2,
			max_outputs: 500,
			num_change_outputs: 1,
			selection_strategy_is_use_all: true,
			ttl_blocks: None,
			..Default::default()
		};
		let slate_i = api.init_send_tx(m, args)?;
		slate_a1 = client1.send_tx_slate_direct("wallet2", &slate_i)?;
		api.tx_lock_outputs(m, &slate_a1)?;

		let (_, txs) = api.retrieve_txs(m, false, None, Some(slate_a1.id), None)?;
		assert_eq!(txs.len(), 1);
		assert_eq!(txs[0].tx_type, TxLogEntryType::TxSent);
		assert_eq!(txs[0].ttl_cutoff_height, None);
		id_a1 = txs[0].id;

		let (_, outs) = api.retrieve_outputs(m, false, false, Some(id_a1))?;
		locked_a1 = outs
			.iter()
			.filter(|o| o.output.status == OutputStatus::Locked)
			.count();
		unconfirmed_a1 = outs
			.iter()
			.filter(|o| o.output.status == OutputStatus::Unconfirmed)
			.count();
		assert!(locked_a1 > 0);
		assert_eq!(unconfirmed_a1, 1);
		Ok(())
	})?;

	// default: a pending send WITH a cutoff two blocks ahead (height 10 -> cutoff 12)
	let mut slate_d = Slate::blank(1, false);
	let mut id_d = 0;
	wallet::controller::owner_single_use(Some(wallet1.clone()), mask1, None, |api, m| {
		api.set_active_account(m, "default")?;
		let (refreshed, _) = api.retrieve_summary_info(m, true, 1)?;
		assert!(refreshed);
		let args = InitTxArgs {
			src_acct_name: None,
			amount: amount,
			minimum_confirmations: 2,
			max_outputs: 500,
			num_change_outputs: 1,
			selection_strategy_is_use_all: true,
			ttl_blocks: Some(2),
			..Default::default()
		};
		let slate_i = api.init_send_tx(m, args)?;
		slate_d = client1.send_tx_slate_direct("wallet2", &slate_i)?;
		api.tx_lock_outputs(m, &slate_d)?;

		let (_, txs) = api.retrieve_txs(m, false, None, Some(slate_d.id), None)?;
		assert_eq!(txs.len(), 1);
		assert_eq!(txs[0].tx_type, TxLogEntryType::TxSent);
		assert_eq!(txs[0].ttl_cutoff_height, Some(12));
		id_d = txs[0].id;
		Ok(())
	})?;

	// tx log ids are kept per account: the two pending sends carry the same one
	assert_eq!(id_a1, id_d);

	let _ = test_framework::award_blocks_to_wallet(&chain, wallet1.clone(), mask1, 2, false);

	// the refresh runs in a thread of its own; the moment it reports its first step (its entries
	// are collected for the account that is active now), the active account is switched, as a
	// second API client or the CLI would do while the updater thread is refreshing
	let w1 = wallet1.clone();
	let m1 = mask1_i.clone();
	let (stx, srx) = std::sync::mpsc::channel();
	let refresher = thread::spawn(move || {
		grin_core::global::set_local_chain_type(grin_core::global::ChainTypes::AutomatedTesting);
		let r = libwallet::api_impl::owner::update_wallet_state(w1, m1.as_ref(), &Some(stx), false);
		println!("PROBE: refresh result {:?}", r);
	});
	let first = srx.recv().unwrap();
	{
		wallet_inst!(wallet1, w);
		w.set_parent_key_id_by_name("account1")?;
		println!("PROBE: switched to account1 on the refresh's first message {:?}", first);
	}
	while let Ok(_m) = srx.recv() {}
	refresher.join().unwrap();

	wallet::controller::owner_single_use(Some(wallet1.clone()), mask1, None, |api, m| {
		api.set_active_account(m, "default")?;
		let (_, txs) = api.retrieve_txs(m, false, None, Some(slate_d.id), None)?;
		println!(
			"PROBE: default  tx {} (cutoff {:?}) is now {:?}",
			txs[0].id, txs[0].ttl_cutoff_height, txs[0].tx_type
		);
		api.set_active_account(m, "account1")?;
		let (_, txs) = api.retrieve_txs(m, false, None, Some(slate_a1.id), None)?;
		let (_, outs) = api.retrieve_outputs(m, false, false, Some(id_a1))?;
		println!(
			"PROBE: account1 tx {} (cutoff {:?}) is now {:?}, its outputs {:?} (were {} locked, {} unconfirmed)",
			txs[0].id,
			txs[0].ttl_cutoff_height,
			txs[0].tx_type,
			outs.iter().map(|o| o.output.status.clone()).collect::<Vec<_>>(),
			locked_a1,
			unconfirmed_a1
		);
		assert_eq!(
			txs[0].tx_type,
			TxLogEntryType::TxSent,
			"the pending send of account1 (no cutoff) was cancelled by the expiry step of a refresh"
		);
		assert_eq!(
			outs.iter().filter(|o| o.output.status == OutputStatus::Locked).count(),
			locked_a1
		);
		Ok(())
	})?;

	stopper.store(false, Ordering::Relaxed);
	thread::sleep(Duration::from_millis(200));
	Ok(())
}

#[test]
fn probe_ttl_account_switch_race() {
	let test_dir = "test_output/probe_ttl_account_switch_race";
	setup(test_dir);
	if let Err(e) = probe_impl(test_dir) {
		panic!("Libwallet Error: {}", e);
	}
	clean_output_dir(test_dir);
}
