// Copyright 2021 The Grin Developers
// Licensed under the Apache License, Version 2.0 (the "License");
// you may not use this file except in compliance with the License.
// You may obtain a copy of the License at
//
//     http://www.apache.org/licenses/LICENSE-2.0
//
// Unless required by applicable law or agreed to in writing, software
// distributed under the License is distributed on an "AS IS" BASIS,
// WITHOUT WARRANTIES OR CONDITIONS OF ANY KIND, either express or implied.
// See the License for the specific language governing permissions and
// limitations under the License.

//! Witness for C03 (a protocol step repeated with the same slate never adds a second log entry or
//! reservation): the command line `send --late-lock` reserves at send time although a late-locked send
//! reserves during finalization, so one slate gets two reservation steps.
#[macro_use]
extern crate clap;

#[macro_use]
extern crate log;

extern crate grin_wallet;

use grin_wallet_impls::test_framework::{self, LocalWalletClient, WalletProxy};

use clap::App;
use std::thread;
use std::time::Duration;

use grin_keychain::ExtKeychain;
use grin_wallet_impls::DefaultLCProvider;

mod common;
use common::{clean_output_dir, execute_command, initial_setup_wallet, instantiate_wallet, setup};

/// command line tests
fn probe_impl(test_dir: &str) -> Result<(), grin_wallet_controller::Error> {
	setup(test_dir);
	// Create a new proxy to simulate server and wallet responses
	let mut wallet_proxy: WalletProxy<
		DefaultLCProvider<LocalWalletClient, ExtKeychain>,
		LocalWalletClient,
		ExtKeychain,
	> = WalletProxy::new(test_dir);
	let chain = wallet_proxy.chain.clone();

	// load app yaml. If it don't exist, just say so and exit
	let yml = load_yaml!("../src/bin/grin-wallet.yml");
	let app = App::from_yaml(yml);

	// wallet init
	let arg_vec = vec!["grin-wallet", "-p", "password1", "init", "-h"];
	// should create new wallet file
	let client1 = LocalWalletClient::new("wallet1", wallet_proxy.tx.clone());
	execute_command(&app, test_dir, "wallet1", &client1, arg_vec.clone())?;

	// trying to init twice - should fail
	assert!(execute_command(&app, test_dir, "wallet1", &client1, arg_vec.clone()).is_err());
	let client1 = LocalWalletClient::new("wallet1", wallet_proxy.tx.clone());

	// add wallet to proxy
	//let wallet1 = test_framework::create_wallet(&format!("{}/wallet1", test_dir), client1.clone());
	let config1 = initial_setup_wallet(test_dir, "wallet1");
	let wallet_config1 = config1.clone().members.unwrap().wallet;
	let (wallet1, mask1_i) = instantiate_wallet(
		wallet_config1.clone(),
		client1.clone(),
		"password1",
		"default",
	)?;
	wallet_proxy.add_wallet(
		"wallet1",
		client1.get_send_instance(),
		wallet1.clone(),
		mask1_i.clone(),
	);

	// Create wallet 2
	let arg_vec = vec!["grin-wallet", "-p", "password2", "init", "-h"];
	let client2 = LocalWalletClient::new("wallet2", wallet_proxy.tx.clone());
	execute_command(&app, test_dir, "wallet2", &client2, arg_vec.clone())?;

	let config2 = initial_setup_wallet(test_dir, "wallet2");
	let wallet_config2 = config2.clone().members.unwrap().wallet;
	let (wallet2, mask2_i) = instantiate_wallet(
		wallet_config2.clone(),
		client2.clone(),
		"password2",
		"default",
	)?;
	wallet_proxy.add_wallet(
		"wallet2",
		client2.get_send_instance(),
		wallet2.clone(),
		mask2_i.clone(),
	);

	// Set the wallet proxy listener running
	thread::spawn(move || {
		if let Err(e) = wallet_proxy.run() {
			error!("Wallet Proxy error: {}", e);
		}
	});

	// Create some accounts in wallet 1
	let arg_vec = vec!["grin-wallet", "-p", "password1", "account", "-c", "mining"];
	execute_command(&app, test_dir, "wallet1", &client1, arg_vec)?;

	let arg_vec = vec![
		"grin-wallet",
		"-p",
		"password1",
		"account",
		"-c",
		"account_1",
	];
	execute_command(&app, test_dir, "wallet1", &client1, arg_vec)?;

	// Create some accounts in wallet 2
	let arg_vec = vec![
		"grin-wallet",
		"-p",
		"password2",
		"account",
		"-c",
		"account_1",
	];
	execute_command(&app, test_dir, "wallet2", &client2, arg_vec.clone())?;
	// already exists
	assert!(execute_command(&app, test_dir, "wallet2", &client2, arg_vec).is_err());

	let arg_vec = vec![
		"grin-wallet",
		"-p",
		"password2",
		"account",
		"-c",
		"account_2",
	];
	execute_command(&app, test_dir, "wallet2", &client2, arg_vec)?;

	// let's see those accounts
	let arg_vec = vec!["grin-wallet", "-p", "password1", "account"];
	execute_command(&app, test_dir, "wallet1", &client1, arg_vec)?;

	// let's see those accounts
	let arg_vec = vec!["grin-wallet", "-p", "password2", "account"];
	execute_command(&app, test_dir, "wallet2", &client2, arg_vec)?;

	// Mine a bit into wallet 1 so we have something to send
	// (TODO: Be able to stop listeners so we can test this better)
	let wallet_config1 = config1.clone().members.unwrap().wallet;
	let (wallet1, mask1_i) =
		instantiate_wallet(wallet_config1, client1.clone(), "password1", "default")?;
	let mask1 = (&mask1_i).as_ref();
	grin_wallet_controller::controller::owner_single_use(
		Some(wallet1.clone()),
		mask1,
		None,
		|api, m| {
			api.set_active_account(m, "mining")?;
			Ok(())
		},
	)?;

	let mut bh = 10u64;
	let _ =
		test_framework::award_blocks_to_wallet(&chain, wallet1.clone(), mask1, bh as usize, false);

	let _ = bh;
	// send --late-lock to a file, receive, finalize: the ordinary command line exchange
	let file_name = format!(
		"{}/wallet1/slatepack/0436430c-2b02-624c-2032-570501212b00.S1.slatepack",
		test_dir
	);
	let arg_vec = vec![
		"grin-wallet", "-p", "password1", "-a", "mining", "send", "--late-lock", "10",
	];
	execute_command(&app, test_dir, "wallet1", &client1, arg_vec)?;
	let arg_vec = vec![
		"grin-wallet", "-p", "password2", "-a", "account_1", "receive", "-i", &file_name,
	];
	execute_command(&app, test_dir, "wallet2", &client2, arg_vec)?;
	let file_name = format!(
		"{}/wallet2/slatepack/0436430c-2b02-624c-2032-570501212b00.S2.slatepack",
		test_dir
	);
	let arg_vec = vec![
		"grin-wallet", "-a", "mining", "-p", "password1", "finalize", "-i", &file_name,
	];
	let fin = execute_command(&app, test_dir, "wallet1", &client1, arg_vec);
	println!("finalize of the late-locked send: {:?}", fin.as_ref().map(|_| ()));

	// what the sender's log says about this one slate
	let wallet_config1 = config1.clone().members.unwrap().wallet;
	let (wallet1, mask1_i) = instantiate_wallet(wallet_config1, client1.clone(), "password1", "default")?;
	let mask1 = (&mask1_i).as_ref();
	let mut sent = vec![];
	grin_wallet_controller::controller::owner_single_use(Some(wallet1.clone()), mask1, None, |api, m| {
		api.set_active_account(m, "mining")?;
		let (_, txs) = api.retrieve_txs(m, false, None, None, None)?;
		for t in txs {
			if t.tx_slate_id.is_some() {
				println!(
					"log entry {} {:?} slate {:?} debited {} inputs {} confirmed {}",
					t.id, t.tx_type, t.tx_slate_id, t.amount_debited, t.num_inputs, t.confirmed
				);
				sent.push((t.id, t.amount_debited, t.num_inputs));
			}
		}
		Ok(())
	})?;
	let mut problems = vec![];
	if fin.is_err() {
		problems.push(format!("the late-locked send cannot be finalized: {:?}", fin.err()));
	}
	if sent.len() != 1 {
		problems.push(format!("{} log entries for one slate: {:?}", sent.len(), sent));
	}
	if sent.iter().any(|e| e.2 == 0) {
		problems.push(format!("a sent entry without inputs: {:?}", sent));
	}
	assert!(problems.is_empty(), "{:#?}", problems);
	Ok(())
}

#[test]
fn probe_cli_late_lock() {
	let test_dir = "target/test_output/probe_cli_late_lock";
	if let Err(e) = probe_impl(test_dir) {
		panic!("Libwallet Error: {}", e);
	}
	clean_output_dir(test_dir);
}
