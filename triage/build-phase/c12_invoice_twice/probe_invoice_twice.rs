// Side observations for property C12 on the UNCHANGED code (these probes do not depend on
// the seeded change in impls/src/lifecycle/seed.rs, they behave the same with and without it).
//
// Intended location when run: controller/tests/c12_side_probes.rs
//   cp OUT/side_observations/c12_side_probes.rs controller/tests/
//   cargo test --offline -p grin_wallet_controller --test c12_side_probes -- --nocapture --test-threads 1
//
// Each test ASSERTS THE PROPERTY, so a failing test = the unchanged code violates it.
//
//  probe 1 `invoice_processed_twice_hands_out_secret_excess`
//      owner::process_invoice_tx takes "a private context is already stored under this slate id"
//      as "I am paying my own invoice" and then leaves its inputs/outputs out of the offset
//      adjustment. A payer that processes the same Invoice1 slate a second time (before
//      tx_lock_outputs, e.g. the first reply got lost) meets its OWN first context there, so the
//      second Invoice2 reply carries  offset = -(secret excess): the secret key behind the
//      `public_blind_excess` it carries is in the reply in clear.
//
//  probe 2 `stored_context_keeps_nonce_in_clear`
//      LMDB backend, save_private_context: only `sec_key` and `sec_nonce` are XOR-masked,
//      `initial_sec_key` and `initial_sec_nonce` (equal to the former two in every flow but the
//      self-paid invoice) are written to the wallet database as they are.

#[macro_use]
extern crate log;
extern crate grin_wallet_controller as wallet;
extern crate grin_wallet_impls as impls;

use grin_core as core;
use grin_util as util;
use grin_wallet_libwallet as libwallet;

use impls::test_framework::{self, LocalWalletClient};
use libwallet::{InitTxArgs, IssueInvoiceTxArgs, Slate, SlateState};
use std::fs;
use std::path::Path;
use std::thread;
use util::secp::key::PublicKey;

#[macro_use]
mod common;
use common::{clean_output_dir, create_wallet_proxy, setup};

fn find_files(dir: &Path, name: &str, out: &mut Vec<std::path::PathBuf>) {
	for e in fs::read_dir(dir).unwrap() {
		let p = e.unwrap().path();
		if p.is_dir() {
			find_files(&p, name, out);
		} else if p.file_name().unwrap().to_str().unwrap() == name {
			out.push(p);
		}
	}
}

fn contains(hay: &[u8], needle: &[u8]) -> bool {
	hay.windows(needle.len()).any(|w| w == needle)
}

fn invoice_twice_impl(test_dir: &'static str) -> Result<(), libwallet::Error> {
	let mut wallet_proxy = create_wallet_proxy(test_dir);
	let chain = wallet_proxy.chain.clone();

	create_wallet_and_add!(
		client1,
		wallet1,
		mask1_i,
		test_dir,
		"wallet1",
		None,
		&mut wallet_proxy,
		true
	);
	let mask1 = (&mask1_i).as_ref();
	create_wallet_and_add!(
		client2,
		wallet2,
		mask2_i,
		test_dir,
		"wallet2",
		None,
		&mut wallet_proxy,
		true
	);
	let mask2 = (&mask2_i).as_ref();

	thread::spawn(move || {
		if let Err(e) = wallet_proxy.run() {
			error!("Wallet Proxy error: {}", e);
		}
	});

	let reward = core::consensus::REWARD;
	let _ = test_framework::award_blocks_to_wallet(&chain, wallet1.clone(), mask1, 10, false);

	// wallet 2 asks for payment
	let mut invoice = Slate::blank(2, true);
	wallet::controller::owner_single_use(Some(wallet2.clone()), mask2, None, |api, m| {
		let args = IssueInvoiceTxArgs {
			amount: reward * 2,
			..Default::default()
		};
		invoice = api.issue_invoice_tx(m, args)?;
		Ok(())
	})?;
	assert_eq!(invoice.state, SlateState::Invoice1);

	// wallet 1 processes the invoice, and then (say the reply got lost) once more
	let mut reply1 = Slate::blank(2, true);
	let mut reply2 = Slate::blank(2, true);
	let mut refused = false;
	wallet::controller::owner_single_use(Some(wallet1.clone()), mask1, None, |api, m| {
		let args = InitTxArgs {
			src_acct_name: None,
			amount: invoice.amount,
			minimum_confirmations: 2,
			max_outputs: 500,
			num_change_outputs: 1,
			selection_strategy_is_use_all: true,
			..Default::default()
		};
		reply1 = api.process_invoice_tx(m, &invoice, args.clone())?;
		match api.process_invoice_tx(m, &invoice, args) {
			Ok(r) => reply2 = r,
			Err(e) => {
				println!("second process_invoice_tx for the same invoice is refused: {}", e);
				refused = true;
			}
		}
		Ok(())
	})?;
	assert_eq!(reply1.state, SlateState::Invoice2);
	if refused {
		return Ok(());
	}
	assert_eq!(reply2.state, SlateState::Invoice2);

	// what the invoicer (or anyone reading the reply) can do with a reply: the invoice went
	// out with a zero offset, so the reply's offset is the payer's contribution alone
	let secp_inst = util::static_secp_instance();
	let secp = secp_inst.lock();
	let leaks = |reply: &Slate| -> bool {
		assert_eq!(reply.participant_data.len(), 1);
		let mut x = reply.offset.secret_key(&secp).unwrap();
		x.neg_assign(&secp).unwrap();
		let candidate = PublicKey::from_secret_key(&secp, &x).unwrap();
		candidate == reply.participant_data[0].public_blind_excess
	};
	let l1 = leaks(&reply1);
	let l2 = leaks(&reply2);
	println!("first  Invoice2 reply: -offset is the secret excess: {}", l1);
	println!("second Invoice2 reply: -offset is the secret excess: {}", l2);
	assert_ne!(
		reply1.participant_data[0].public_nonce,
		reply2.participant_data[0].public_nonce
	);
	assert!(!l1, "first reply hands out the payer's secret excess");
	assert!(
		!l2,
		"second reply hands out the payer's secret excess (offset == -sec_key)"
	);
	Ok(())
}

#[test]
fn invoice_processed_twice_hands_out_secret_excess() {
	let test_dir = "test_output/c12_side_invoice_twice";
	setup(test_dir);
	if let Err(e) = invoice_twice_impl(test_dir) {
		panic!("Libwallet Error: {}", e);
	}
	clean_output_dir(test_dir);
}

