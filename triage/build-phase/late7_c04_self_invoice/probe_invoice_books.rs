// Side-observation probes for property C04, meant for the UNCHANGED code.
// Each probe prints what it finds and panics if the books do not equal the chain's truth.
//
//  probe_self_invoice           : a wallet pays its own invoice (same account)
//  probe_self_invoice_two_accounts : the same, invoiced by one account and paid from another
//  probe_invoice_payer_cancels  : the payer of an invoice cancels before anything is broadcast,
//                                 the issuer finalizes and posts anyway
//  probe_min_conf_zero_total    : summary figures asked for with minimum_confirmations = 0
#[macro_use]
extern crate log;
extern crate grin_wallet_controller as wallet;
extern crate grin_wallet_impls as impls;

use grin_core as core;
use grin_wallet_libwallet as libwallet;

use impls::test_framework::{self, LocalWalletClient};
use libwallet::{InitTxArgs, IssueInvoiceTxArgs, OutputStatus, Slate};
use std::sync::atomic::Ordering;
use std::thread;
use std::time::Duration;

#[macro_use]
mod common;
use common::{clean_output_dir, create_wallet_proxy, setup};

macro_rules! check_books {
	($who:expr, $wallet:expr, $mask:expr, $chain:expr, $violations:expr) => {
		wallet::controller::owner_single_use(Some($wallet.clone()), $mask, None, |api, m| {
			let _ = api.retrieve_summary_info(m, true, 1)?;
			let (refreshed, info) = api.retrieve_summary_info(m, true, 1)?;
			assert!(refreshed);
			let (_, txs) = api.retrieve_txs(m, false, None, None, None)?;
			for t in txs.iter() {
				println!(
					"{}: log {} {:?} confirmed {} credited {} debited {}",
					$who, t.id, t.tx_type, t.confirmed, t.amount_credited, t.amount_debited
				);
			}
			let credits: u64 = txs
				.iter()
				.filter(|t| t.confirmed)
				.map(|t| t.amount_credited)
				.sum();
			let debits: u64 = txs
				.iter()
				.filter(|t| t.confirmed)
				.map(|t| t.amount_debited)
				.sum();
			println!(
				"{}: credits {} debits {} net {} | total {} locked {} spendable {} awaiting fin {}",
				$who,
				credits,
				debits,
				credits as i128 - debits as i128,
				info.total,
				info.amount_locked,
				info.amount_currently_spendable,
				info.amount_awaiting_finalization
			);
			if credits as i128 - debits as i128 != (info.total + info.amount_locked) as i128 {
				$violations.push(format!(
					"{}: confirmed credits {} - debits {} = {} but total {} + locked {} = {}",
					$who,
					credits,
					debits,
					credits as i128 - debits as i128,
					info.total,
					info.amount_locked,
					info.total + info.amount_locked
				));
			}
			let (_, outputs) = api.retrieve_outputs(m, false, false, None)?;
			for o in outputs.iter() {
				println!(
					"{}: output {} value {} {} tx {:?} root {}",
					$who,
					o.output.key_id,
					o.output.value,
					o.output.status,
					o.output.tx_log_entry,
					o.output.root_key_id
				);
				let live = o.output.status == OutputStatus::Unspent
					|| o.output.status == OutputStatus::Locked;
				let on_chain = $chain.get_unspent(o.commit).unwrap().is_some();
				if live && !on_chain {
					$violations.push(format!(
						"{}: record {} ({}) is {} but not in the node's unspent set",
						$who, o.output.key_id, o.output.value, o.output.status
					));
				}
				if !live && on_chain {
					$violations.push(format!(
						"{}: record {} ({}) is {} but it is in the node's unspent set",
						$who, o.output.key_id, o.output.value, o.output.status
					));
				}
			}
			Ok(())
		})?;
	};
}

fn self_invoice_impl(test_dir: &'static str) -> Result<(), libwallet::Error> {
	let mut wallet_proxy = create_wallet_proxy(test_dir);
	let chain = wallet_proxy.chain.clone();
	let stopper = wallet_proxy.running.clone();
	create_wallet_and_add!(
		client1,
		wallet1,
		mask1_i,
		test_dir,
		"wallet1",
		None,
		&mut wallet_proxy,
		true
	);
	let mask1 = (&mask1_i).as_ref();
	create_wallet_and_add!(
		client2,
		wallet2,
		mask2_i,
		test_dir,
		"wallet2",
		None,
		&mut wallet_proxy,
		true
	);
	let mask2 = (&mask2_i).as_ref();
	let _ = (&client1, &client2);
	thread::spawn(move || {
		if let Err(e) = wallet_proxy.run() {
			error!("Wallet Proxy error: {}", e);
		}
	});
	let reward = core::consensus::REWARD;
	let mut violations: Vec<String> = vec![];

	let _ = test_framework::award_blocks_to_wallet(&chain, wallet1.clone(), mask1, 6, false);
	check_books!("wallet1 before", wallet1, mask1, chain, violations);
	assert!(violations.is_empty());

	// wallet 1 invoices itself, pays, finalizes, posts
	let mut slate = Slate::blank(2, true);
	wallet::controller::owner_single_use(Some(wallet1.clone()), mask1, None, |api, m| {
		let args = IssueInvoiceTxArgs {
			amount: reward / 3,
			..Default::default()
		};
		slate = api.issue_invoice_tx(m, args)?;
		let args = InitTxArgs {
			src_acct_name: None,
			amount: slate.amount,
			minimum_confirmations: 1,
			max_outputs: 500,
			num_change_outputs: 1,
			selection_strategy_is_use_all: false,
			..Default::default()
		};
		slate = api.process_invoice_tx(m, &slate, args)?;
		api.tx_lock_outputs(m, &slate)?;
		slate = api.finalize_tx(m, &slate)?;
		api.post_tx(m, &slate, false)?;
		Ok(())
	})?;
	// mined by the other wallet so that wallet 1 only changes through the invoice
	let _ = test_framework::award_blocks_to_wallet(&chain, wallet2.clone(), mask2, 3, false);

	check_books!("wallet1 after self invoice", wallet1, mask1, chain, violations);

	stopper.store(false, Ordering::Relaxed);
	thread::sleep(Duration::from_millis(200));
	assert!(
		violations.is_empty(),
		"violations:\n{}",
		violations.join("\n")
	);
	Ok(())
}

fn self_invoice_two_accounts_impl(test_dir: &'static str) -> Result<(), libwallet::Error> {
	let mut wallet_proxy = create_wallet_proxy(test_dir);
	let chain = wallet_proxy.chain.clone();
	let stopper = wallet_proxy.running.clone();
	create_wallet_and_add!(
		client1,
		wallet1,
		mask1_i,
		test_dir,
		"wallet1",
		None,
		&mut wallet_proxy,
		true
	);
	let mask1 = (&mask1_i).as_ref();
	create_wallet_and_add!(
		client2,
		wallet2,
		mask2_i,
		test_dir,
		"wallet2",
		None,
		&mut wallet_proxy,
		true
	);
	let mask2 = (&mask2_i).as_ref();
	let _ = (&client1, &client2);
	thread::spawn(move || {
		if let Err(e) = wallet_proxy.run() {
			error!("Wallet Proxy error: {}", e);
		}
	});
	let reward = core::consensus::REWARD;
	let mut violations: Vec<String> = vec![];

	wallet::controller::owner_single_use(Some(wallet1.clone()), mask1, None, |api, m| {
		api.create_account_path(m, "savings")?;
		Ok(())
	})?;
	let _ = test_framework::award_blocks_to_wallet(&chain, wallet1.clone(), mask1, 6, false);

	// the savings account invoices, the default account pays
	let mut slate = Slate::blank(2, true);
	wallet::controller::owner_single_use(Some(wallet1.clone()), mask1, None, |api, m| {
		let args = IssueInvoiceTxArgs {
			dest_acct_name: Some("savings".to_owned()),
			amount: reward / 3,
			..Default::default()
		};
		slate = api.issue_invoice_tx(m, args)?;
		let args = InitTxArgs {
			src_acct_name: None,
			amount: slate.amount,
			minimum_confirmations: 1,
			max_outputs: 500,
			num_change_outputs: 1,
			selection_strategy_is_use_all: false,
			..Default::default()
		};
		slate = api.process_invoice_tx(m, &slate, args)?;
		api.tx_lock_outputs(m, &slate)?;
		slate = api.finalize_tx(m, &slate)?;
		Ok(())
	})?;
	// broadcast through the other wallet's node connection, so that the test node pays the
	// block reward elsewhere
	wallet::controller::owner_single_use(Some(wallet2.clone()), mask2, None, |api, m| {
		api.post_tx(m, &slate, false)?;
		Ok(())
	})?;
	let _ = test_framework::award_blocks_to_wallet(&chain, wallet2.clone(), mask2, 3, false);

	check_books!("wallet1/default", wallet1, mask1, chain, violations);
	{
		wallet_inst!(wallet1, w);
		w.set_parent_key_id_by_name("savings")?;
	}
	check_books!("wallet1/savings", wallet1, mask1, chain, violations);
	wallet::controller::owner_single_use(Some(wallet1.clone()), mask1, None, |api, m| {
		let (_, info) = api.retrieve_summary_info(m, true, 1)?;
		if info.total != reward / 3 {
			violations.push(format!(
				"wallet1/savings: total {} although the invoiced output of {} (key under the savings account) is on chain",
				info.total,
				reward / 3
			));
		}
		Ok(())
	})?;

	stopper.store(false, Ordering::Relaxed);
	thread::sleep(Duration::from_millis(200));
	assert!(
		violations.is_empty(),
		"violations:\n{}",
		violations.join("\n")
	);
	Ok(())
}

fn invoice_payer_cancels_impl(test_dir: &'static str) -> Result<(), libwallet::Error> {
	let mut wallet_proxy = create_wallet_proxy(test_dir);
	let chain = wallet_proxy.chain.clone();
	let stopper = wallet_proxy.running.clone();
	create_wallet_and_add!(
		client1,
		wallet1,
		mask1_i,
		test_dir,
		"wallet1",
		None,
		&mut wallet_proxy,
		true
	);
	let mask1 = (&mask1_i).as_ref();
	create_wallet_and_add!(
		client2,
		wallet2,
		mask2_i,
		test_dir,
		"wallet2",
		None,
		&mut wallet_proxy,
		true
	);
	let mask2 = (&mask2_i).as_ref();
	let _ = (&client1, &client2);
	thread::spawn(move || {
		if let Err(e) = wallet_proxy.run() {
			error!("Wallet Proxy error: {}", e);
		}
	});
	let reward = core::consensus::REWARD;
	let mut violations: Vec<String> = vec![];

	let _ = test_framework::award_blocks_to_wallet(&chain, wallet1.clone(), mask1, 6, false);

	// wallet 2 asks for payment
	let mut slate = Slate::blank(2, true);
	wallet::controller::owner_single_use(Some(wallet2.clone()), mask2, None, |api, m| {
		let args = IssueInvoiceTxArgs {
			amount: reward / 3,
			..Default::default()
		};
		slate = api.issue_invoice_tx(m, args)?;
		Ok(())
	})?;
	// wallet 1 pays, hands the slate back, then changes its mind: nothing was broadcast yet
	wallet::controller::owner_single_use(Some(wallet1.clone()), mask1, None, |api, m| {
		let args = InitTxArgs {
			src_acct_name: None,
			amount: slate.amount,
			minimum_confirmations: 1,
			max_outputs: 500,
			num_change_outputs: 1,
			selection_strategy_is_use_all: false,
			..Default::default()
		};
		slate = api.process_invoice_tx(m, &slate, args)?;
		api.tx_lock_outputs(m, &slate)?;
		api.cancel_tx(m, None, Some(slate.id))?;
		Ok(())
	})?;
	// wallet 2 holds everything it needs: finalizes and posts
	wallet::controller::owner_single_use(Some(wallet2.clone()), mask2, None, |api, m| {
		slate = api.finalize_tx(m, &slate)?;
		api.post_tx(m, &slate, false)?;
		Ok(())
	})?;
	let _ = test_framework::award_blocks_to_wallet(&chain, wallet2.clone(), mask2, 3, false);

	check_books!("payer (wallet1)", wallet1, mask1, chain, violations);

	stopper.store(false, Ordering::Relaxed);
	thread::sleep(Duration::from_millis(200));
	assert!(
		violations.is_empty(),
		"violations:\n{}",
		violations.join("\n")
	);
	Ok(())
}

fn min_conf_zero_total_impl(test_dir: &'static str) -> Result<(), libwallet::Error> {
	let mut wallet_proxy = create_wallet_proxy(test_dir);
	let chain = wallet_proxy.chain.clone();
	let stopper = wallet_proxy.running.clone();
	create_wallet_and_add!(
		client1,
		wallet1,
		mask1_i,
		test_dir,
		"wallet1",
		None,
		&mut wallet_proxy,
		true
	);
	let mask1 = (&mask1_i).as_ref();
	create_wallet_and_add!(
		client2,
		wallet2,
		mask2_i,
		test_dir,
		"wallet2",
		None,
		&mut wallet_proxy,
		true
	);
	let mask2 = (&mask2_i).as_ref();
	let _ = &client2;
	thread::spawn(move || {
		if let Err(e) = wallet_proxy.run() {
			error!("Wallet Proxy error: {}", e);
		}
	});
	let reward = core::consensus::REWARD;

	let _ = test_framework::award_blocks_to_wallet(&chain, wallet1.clone(), mask1, 6, false);
	// wallet 1 starts a payment to wallet 2 and never finishes it
	wallet::controller::owner_single_use(Some(wallet1.clone()), mask1, None, |api, m| {
		let args = InitTxArgs {
			src_acct_name: None,
			amount: reward / 3,
			minimum_confirmations: 1,
			max_outputs: 500,
			num_change_outputs: 1,
			selection_strategy_is_use_all: false,
			..Default::default()
		};
		let slate = api.init_send_tx(m, args)?;
		let _ = client1.send_tx_slate_direct("wallet2", &slate)?;
		Ok(())
	})?;
	let mut total0 = 0;
	let mut total1 = 0;
	wallet::controller::owner_single_use(Some(wallet2.clone()), mask2, None, |api, m| {
		let (_, info) = api.retrieve_summary_info(m, true, 0)?;
		total0 = info.total;
		println!(
			"wallet2, minimum_confirmations 0: total {} spendable {} awaiting confirmation {} awaiting finalization {}",
			info.total,
			info.amount_currently_spendable,
			info.amount_awaiting_confirmation,
			info.amount_awaiting_finalization
		);
		let (_, info) = api.retrieve_summary_info(m, true, 1)?;
		total1 = info.total;
		println!(
			"wallet2, minimum_confirmations 1: total {} spendable {} awaiting confirmation {} awaiting finalization {}",
			info.total,
			info.amount_currently_spendable,
			info.amount_awaiting_confirmation,
			info.amount_awaiting_finalization
		);
		Ok(())
	})?;
	stopper.store(false, Ordering::Relaxed);
	thread::sleep(Duration::from_millis(200));
	assert_eq!(total1, 0);
	assert_eq!(
		total0, 0,
		"nothing of wallet2 is on chain and nothing is confirmed in its log, yet total is {}",
		total0
	);
	Ok(())
}

#[test]
fn probe_self_invoice() {
	let test_dir = "test_output/probe_self_invoice";
	setup(test_dir);
	if let Err(e) = self_invoice_impl(test_dir) {
		panic!("Libwallet Error: {}", e);
	}
	clean_output_dir(test_dir);
}

#[test]
fn probe_invoice_payer_cancels() {
	let test_dir = "test_output/probe_invoice_payer_cancels";
	setup(test_dir);
	if let Err(e) = invoice_payer_cancels_impl(test_dir) {
		panic!("Libwallet Error: {}", e);
	}
	clean_output_dir(test_dir);
}

#[test]
fn probe_min_conf_zero_total() {
	let test_dir = "test_output/probe_min_conf_zero_total";
	setup(test_dir);
	if let Err(e) = min_conf_zero_total_impl(test_dir) {
		panic!("Libwallet Error: {}", e);
	}
	clean_output_dir(test_dir);
}

#[test]
fn probe_self_invoice_two_accounts() {
	let test_dir = "test_output/probe_self_invoice_two_accounts";
	setup(test_dir);
	if let Err(e) = self_invoice_two_accounts_impl(test_dir) {
		panic!("Libwallet Error: {}", e);
	}
	clean_output_dir(test_dir);
}
