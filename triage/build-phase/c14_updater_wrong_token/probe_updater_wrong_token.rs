// Witness for C14 ("every owner operation ... fails with an invalid-mask error if invoked with a wrong or
// missing token ... With the right token it behaves exactly like an unmasked wallet"), run against the real
// code. Observed first by the C14d seeding agent (side observation 2).
//
// Owner::start_updater(wrong token) returns Ok(()): the token is only looked at inside the spawned thread,
// whose first refresh fails with InvalidKeychainMask. The thread ends, but the "updater is running" flag it
// set stays on, and while it is on every refresh the rightful owner asks for is skipped (`validated = false`).
#[macro_use]
extern crate log;
extern crate grin_wallet_api as api;
extern crate grin_wallet_controller as wallet;
extern crate grin_wallet_impls as impls;

use grin_wallet_libwallet as libwallet;
use grin_util as util;
use impls::test_framework::{self, LocalWalletClient};
use std::sync::atomic::Ordering;
use std::thread;
use std::time::Duration;
use util::secp::key::SecretKey;

#[macro_use]
mod common;
use common::{clean_output_dir, create_wallet_proxy, setup};

fn probe_impl(test_dir: &'static str) -> Result<(), libwallet::Error> {
	let mut wallet_proxy = create_wallet_proxy(test_dir);
	let chain = wallet_proxy.chain.clone();
	let stopper = wallet_proxy.running.clone();
	// a masked wallet: create_mask = true
	create_wallet_and_add!(client1, wallet1, mask1_i, test_dir, "wallet1", None, &mut wallet_proxy, true);
	let mask1 = (&mask1_i).as_ref();
	assert!(mask1.is_some());
	let _ = &client1;
	thread::spawn(move || {
		if let Err(e) = wallet_proxy.run() {
			error!("Wallet Proxy error: {}", e);
		}
	});
	let _ = test_framework::award_blocks_to_wallet(&chain, wallet1.clone(), mask1, 5, false);

	let owner_api = api::Owner::new(wallet1.clone(), None);
	// right token: a refresh works
	let (validated, _) = owner_api.retrieve_summary_info(mask1, true, 1)?;
	println!("refresh with the right token, before: validated = {}", validated);
	assert!(validated);

	// wrong token (one bit off)
	let mut bytes = mask1.unwrap().0;
	bytes[0] ^= 1;
	let wrong = SecretKey::from_slice(&util::static_secp_instance().lock(), &bytes).unwrap();
	let res = owner_api.start_updater(Some(&wrong), Duration::from_millis(100));
	println!("start_updater(wrong token) -> {:?}", res.as_ref().map(|_| ()));
	thread::sleep(Duration::from_millis(1500));

	let _ = test_framework::award_blocks_to_wallet(&chain, wallet1.clone(), mask1, 2, false);
	let (validated_after, info) = owner_api.retrieve_summary_info(mask1, true, 1)?;
	println!(
		"refresh with the right token, after: validated = {} (last_confirmed_height {})",
		validated_after, info.last_confirmed_height
	);
	stopper.store(false, Ordering::Relaxed);
	thread::sleep(Duration::from_millis(200));
	let mut problems = vec![];
	if res.is_ok() {
		problems.push("start_updater with a wrong token did not fail");
	}
	if !validated_after {
		problems.push("after the wrong-token call the rightful owner's refreshes are skipped");
	}
	assert!(problems.is_empty(), "{:#?}", problems);
	Ok(())
}

#[test]
fn probe_updater_wrong_token() {
	let test_dir = "test_output/probe_updater_wrong_token";
	setup(test_dir);
	if let Err(e) = probe_impl(test_dir) {
		panic!("Libwallet Error: {}", e);
	}
	clean_output_dir(test_dir);
}
