// Probe for property C13 ("replies to such requests are encrypted under that same key"):
// a request sealed under session key K1 is in flight (its refresh waits for the node) while
// another connection re-keys the listener with a plaintext init_secure_api. The reply to the
// first request must still be readable with K1.
#[macro_use]
extern crate clap;

#[macro_use]
extern crate log;

extern crate grin_wallet;

use grin_wallet_api::{ECDHPubkey, EncryptedRequest, EncryptedResponse, JsonId};
use grin_wallet_impls::test_framework::{self, LocalWalletClient, WalletProxy};

use clap::App;
use std::sync::atomic::{AtomicBool, Ordering};
use std::sync::mpsc::channel;
use std::sync::Arc;
use std::thread;
use std::time::Duration;

use grin_keychain::ExtKeychain;
use grin_wallet_impls::DefaultLCProvider;
use serde_json::{self, Value};
use url::Url;

#[macro_use]
mod common;
use common::{
	clean_output_dir, derive_ecdh_key, execute_command, initial_setup_wallet, instantiate_wallet,
	post, send_request, send_request_enc, setup, setup_global_chain_type, RetrieveSummaryInfoResp,
};

const URL: &str = "http://127.0.0.1:53420/v3/owner";

#[test]
fn owner_v3_reply_key_race() -> Result<(), grin_wallet_controller::Error> {
	setup_global_chain_type();
	let test_dir = "target/test_output/owner_v3_reply_key_race";
	setup(test_dir);

	let mut wallet_proxy: WalletProxy<
		DefaultLCProvider<LocalWalletClient, ExtKeychain>,
		LocalWalletClient,
		ExtKeychain,
	> = WalletProxy::new(test_dir);
	let chain = wallet_proxy.chain.clone();

	// a gate between the listener's node client and the node proxy: while it is shut, calls to
	// the node wait
	let gate = Arc::new(AtomicBool::new(true));
	let (gtx, grx) = channel();
	{
		let ptx = wallet_proxy.tx.clone();
		let g = gate.clone();
		thread::spawn(move || {
			while let Ok(m) = grx.recv() {
				while !g.load(Ordering::SeqCst) {
					thread::sleep(Duration::from_millis(10));
				}
				let _ = ptx.send(m);
			}
		});
	}

	let yml = load_yaml!("../src/bin/grin-wallet.yml");
	let app = App::from_yaml(yml);
	let client1 = LocalWalletClient::new("wallet1", gtx);
	let arg_vec = vec!["grin-wallet", "-p", "password", "init", "-h"];
	execute_command(&app, test_dir, "wallet1", &client1, arg_vec.clone())?;
	let config1 = initial_setup_wallet(test_dir, "wallet1");
	let wallet_config1 = config1.clone().members.unwrap().wallet;
	let (wallet1, mask1_i) =
		instantiate_wallet(wallet_config1.clone(), client1.clone(), "password", "default")?;
	let mask1 = (&mask1_i).as_ref();
	wallet_proxy.add_wallet(
		"wallet1",
		client1.get_send_instance(),
		wallet1.clone(),
		mask1_i.clone(),
	);
	thread::spawn(move || {
		if let Err(e) = wallet_proxy.run() {
			error!("Wallet Proxy error: {}", e);
		}
	});
	let _ = test_framework::award_blocks_to_wallet(&chain, wallet1.clone(), mask1, 2, false);

	// the owner listener
	let arg_vec = vec!["grin-wallet", "-p", "password", "owner_api", "-l", "53420"];
	{
		let client1 = client1.clone();
		thread::spawn(move || {
			let yml = load_yaml!("../src/bin/grin-wallet.yml");
			let app = App::from_yaml(yml);
			execute_command(&app, test_dir, "wallet1", &client1, arg_vec.clone()).unwrap();
		});
	}
	thread::sleep(Duration::from_millis(500));

	let sec_key_str = "e00dcc4a009e3427c6b1e1a550c538179d46f3827a13ed74c759c860761caf1e";

	// session 1
	let init_req = include_str!("data/v3_reqs/init_secure_api.req.json");
	let res = send_request(1, URL, init_req)?;
	let value: ECDHPubkey = res.unwrap();
	let k1 = derive_ecdh_key(sec_key_str, &value.ecdh_pubkey);

	let info_req = include_str!("data/v3_reqs/retrieve_info.req.json");
	let res = send_request_enc::<RetrieveSummaryInfoResp>(
		&JsonId::StrId(String::from("1")),
		1,
		URL,
		&info_req,
		&k1,
	)?;
	assert!(res.is_ok(), "sanity: a request under K1 is served");

	// shut the gate: the next refresh waits for the node
	gate.store(false, Ordering::SeqCst);
	let k1_a = k1.clone();
	let in_flight = thread::spawn(move || {
		let url = Url::parse(URL).unwrap();
		let req_val: Value = serde_json::from_str(info_req).unwrap();
		let req =
			EncryptedRequest::from_json(&JsonId::StrId(String::from("2")), &req_val, &k1_a).unwrap();
		post(&url, None, &req).unwrap()
	});
	thread::sleep(Duration::from_millis(1500));

	// another connection re-keys the listener while the first request is being served
	let res = send_request(1, URL, init_req)?;
	let value: ECDHPubkey = res.unwrap();
	let k2 = derive_ecdh_key(sec_key_str, &value.ecdh_pubkey);
	assert!(k1 != k2);

	gate.store(true, Ordering::SeqCst);
	let raw = in_flight.join().unwrap();
	let raw_val: Value = serde_json::from_str(&raw).unwrap();
	println!("reply to the in-flight request: {}", &raw[..raw.len().min(160)]);
	assert!(
		raw_val["error"] == serde_json::json!(null),
		"the in-flight request was answered with an error: {}",
		raw
	);
	let enc_resp: EncryptedResponse = serde_json::from_str(&raw).unwrap();
	let under_k1 = enc_resp.decrypt(&k1);
	let under_k2 = enc_resp.decrypt(&k2);
	println!(
		"reply opens under K1 (the request's key): {}, under K2 (the other party's key): {}",
		under_k1.is_ok(),
		under_k2.is_ok()
	);
	assert!(
		under_k1.is_ok(),
		"the reply to a request sealed under K1 is not sealed under K1 (it opens under K2: {})",
		under_k2.is_ok()
	);

	clean_output_dir(test_dir);
	Ok(())
}
