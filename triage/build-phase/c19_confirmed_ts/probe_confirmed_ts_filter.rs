// Side-observation probe (UNCHANGED code): a confirmation-time range lets
// entries through that have no confirmation time at all.
//
// To run: copy to controller/tests/probe_confirmed_ts_filter.rs and
//   CARGO_NET_OFFLINE=true CARGO_TARGET_DIR=/tmp/seed/target-C19d cargo test --offline \
//     -p grin_wallet_controller --test probe_confirmed_ts_filter -- --nocapture --test-threads 1
// The assertions state what the property asks for; on the unchanged code the
// test FAILS at the first assert (the unconfirmed TxSent entry is returned).
#[macro_use]
extern crate log;
extern crate grin_wallet_controller as wallet;
extern crate grin_wallet_impls as impls;

use chrono::{Duration as ChronoDuration, Utc};
use grin_core as core;
use grin_wallet_libwallet as libwallet;
use impls::test_framework::{self, LocalWalletClient};
use libwallet::{InitTxArgs, RetrieveTxQueryArgs};
use std::sync::atomic::Ordering;
use std::thread;
use std::time::Duration;

#[macro_use]
mod common;
use common::{clean_output_dir, create_wallet_proxy, setup};

fn probe_impl(test_dir: &'static str) -> Result<(), libwallet::Error> {
	let mut wallet_proxy = create_wallet_proxy(test_dir);
	let chain = wallet_proxy.chain.clone();
	let stopper = wallet_proxy.running.clone();
	create_wallet_and_add!(
		client1,
		wallet1,
		mask1_i,
		test_dir,
		"wallet1",
		None,
		&mut wallet_proxy,
		true
	);
	let mask1 = (&mask1_i).as_ref();
	thread::spawn(move || {
		if let Err(e) = wallet_proxy.run() {
			error!("Wallet Proxy error: {}", e);
		}
	});
	let reward = core::consensus::REWARD;
	let _ = test_framework::award_blocks_to_wallet(&chain, wallet1.clone(), mask1, 5, false);

	wallet::controller::owner_single_use(Some(wallet1.clone()), mask1, None, |api, m| {
		// an outstanding send: never confirmed, confirmation_ts == None
		let args = InitTxArgs {
			src_acct_name: None,
			amount: reward,
			minimum_confirmations: 1,
			max_outputs: 500,
			num_change_outputs: 1,
			selection_strategy_is_use_all: false,
			..Default::default()
		};
		let slate = api.init_send_tx(m, args)?;
		api.tx_lock_outputs(m, &slate)?;

		// nothing was confirmed an hour from now or later
		let mut q = RetrieveTxQueryArgs::default();
		q.min_confirmed_timestamp = Some(Utc::now() + ChronoDuration::hours(1));
		let (_, txs) = api.retrieve_txs(m, true, None, None, Some(q))?;
		println!("min_confirmed_timestamp in the future -> {:?}", txs);
		assert!(
			txs.is_empty(),
			"min_confirmed_timestamp returned {} entries, confirmation_ts = {:?}",
			txs.len(),
			txs.iter().map(|t| t.confirmation_ts).collect::<Vec<_>>()
		);

		// nothing was confirmed a year ago or earlier
		let mut q = RetrieveTxQueryArgs::default();
		q.max_confirmed_timestamp = Some(Utc::now() - ChronoDuration::days(365));
		let (_, txs) = api.retrieve_txs(m, true, None, None, Some(q))?;
		println!("max_confirmed_timestamp in the past -> {:?}", txs);
		assert!(txs.is_empty());
		Ok(())
	})?;

	stopper.store(false, Ordering::Relaxed);
	thread::sleep(Duration::from_millis(1000));
	Ok(())
}

#[test]
fn probe_confirmed_ts_filter() {
	let test_dir = "test_output/probe_confirmed_ts_filter";
	setup(test_dir);
	if let Err(e) = probe_impl(test_dir) {
		panic!("Libwallet Error: {}", e);
	}
	clean_output_dir(test_dir);
}
