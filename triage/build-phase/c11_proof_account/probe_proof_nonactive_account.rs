//! Side observations on the UNCHANGED code (not part of the seeded change):
//! each scenario prints what happens and the test asserts the behaviour the
//! property asks for, so it FAILS on the unchanged code.
#[macro_use]
extern crate log;
extern crate grin_wallet_controller as wallet;
extern crate grin_wallet_impls as impls;
extern crate grin_wallet_util;

use grin_wallet_libwallet as libwallet;
use impls::test_framework::{self, LocalWalletClient};
use libwallet::{InitTxArgs, Slate};
use std::sync::atomic::Ordering;
use std::thread;
use std::time::Duration;

#[macro_use]
mod common;
use common::{clean_output_dir, create_wallet_proxy, setup};

fn side_obs_impl(test_dir: &'static str) -> Result<(), libwallet::Error> {
	let mut wallet_proxy = create_wallet_proxy(test_dir);
	let chain = wallet_proxy.chain.clone();
	let stopper = wallet_proxy.running.clone();

	create_wallet_and_add!(
		client1,
		wallet1,
		mask1_i,
		test_dir,
		"wallet1",
		None,
		&mut wallet_proxy,
		false
	);
	let mask1 = (&mask1_i).as_ref();
	create_wallet_and_add!(
		client2,
		wallet2,
		mask2_i,
		test_dir,
		"wallet2",
		None,
		&mut wallet_proxy,
		false
	);
	let mask2 = (&mask2_i).as_ref();
	create_wallet_and_add!(
		client3,
		wallet3,
		mask3_i,
		test_dir,
		"wallet3",
		None,
		&mut wallet_proxy,
		false
	);
	let mask3 = (&mask3_i).as_ref();
	let _ = (&client2, &client3);

	thread::spawn(move || {
		if let Err(e) = wallet_proxy.run() {
			error!("Wallet Proxy error: {}", e);
		}
	});

	// wallet1: a second account that owns the funds of scenario C
	wallet::controller::owner_single_use(Some(wallet1.clone()), mask1, None, |api, m| {
		api.create_account_path(m, "second")?;
		Ok(())
	})?;
	let _ = test_framework::award_blocks_to_wallet(&chain, wallet1.clone(), mask1, 8, false);
	wallet::controller::owner_single_use(Some(wallet1.clone()), mask1, None, |api, m| {
		api.set_active_account(m, "second")?;
		Ok(())
	})?;
	let _ = test_framework::award_blocks_to_wallet(&chain, wallet1.clone(), mask1, 8, false);
	wallet::controller::owner_single_use(Some(wallet1.clone()), mask1, None, |api, m| {
		api.set_active_account(m, "default")?;
		Ok(())
	})?;

	let mut address2 = None;
	wallet::controller::owner_single_use(Some(wallet2.clone()), mask2, None, |api, m| {
		address2 = Some(api.get_slatepack_address(m, 0)?);
		Ok(())
	})?;
	let mut address3 = None;
	wallet::controller::owner_single_use(Some(wallet3.clone()), mask3, None, |api, m| {
		address3 = Some(api.get_slatepack_address(m, 0)?);
		Ok(())
	})?;
	let address2 = address2.unwrap();
	let address3 = address3.unwrap();

	let args = InitTxArgs {
		src_acct_name: None,
		amount: 2_000_000_000,
		minimum_confirmations: 2,
		max_outputs: 500,
		num_change_outputs: 1,
		selection_strategy_is_use_all: false,
		payment_proof_recipient_address: Some(address2.clone()),
		..Default::default()
	};
	let mut violations: Vec<&str> = vec![];

	// --- C. send from account "second" while "default" is the active one
	let mut slate = Slate::blank(1, false);
	wallet::controller::owner_single_use(Some(wallet1.clone()), mask1, None, |api, m| {
		let mut a = args.clone();
		a.src_acct_name = Some("second".to_owned());
		let slate_i = api.init_send_tx(m, a)?;
		api.tx_lock_outputs(m, &slate_i)?;
		let reply = client1.send_tx_slate_direct("wallet2", &slate_i)?;
		slate = api.finalize_tx(m, &reply)?;
		api.post_tx(m, &slate, true)?;
		Ok(())
	})?;
	let _ = test_framework::award_blocks_to_wallet(&chain, wallet1.clone(), mask1, 3, false);
	wallet::controller::owner_single_use(Some(wallet1.clone()), mask1, None, |api, m| {
		api.set_active_account(m, "second")?;
		let pp = api.retrieve_payment_proof(m, true, None, Some(slate.id))?;
		let res = api.verify_payment_proof(m, &pp);
		println!("C (source account is not the active one): {:?}", res);
		if res.is_err() {
			violations.push("C: the proof exported for a send from a non-active account does not verify");
		}
		api.set_active_account(m, "default")?;
		Ok(())
	})?;

	stopper.store(false, Ordering::Relaxed);
	thread::sleep(Duration::from_millis(200));
	assert!(violations.is_empty(), "{:#?}", violations);
	Ok(())
}

#[test]
fn probe_proof_nonactive_account() {
	let test_dir = "test_output/probe_proof_nonactive_account";
	setup(test_dir);
	if let Err(e) = side_obs_impl(test_dir) {
		panic!("Libwallet Error: {}", e);
	}
	clean_output_dir(test_dir);
}
