// Side-observation probe (unchanged code): the payer of an invoice keeps its private context
// (secret excess + secret nonce) after it has signed Invoice2; the Foreign API's finalize_tx
// accepts a crafted Standard2 slate with the same id and signs a second, different message with
// the same secret nonce.
#[macro_use]
extern crate log;
extern crate grin_wallet_controller as wallet;
extern crate grin_wallet_impls as impls;

use grin_core as core;
use grin_keychain as keychain;
use grin_wallet_libwallet as libwallet;

use self::core::libtx::{build, proof::ProofBuilder};
use self::keychain::{BlindingFactor, ExtKeychain, Keychain};
use impls::test_framework::{self, LocalWalletClient};
use libwallet::slate_versions::v4::{KernelFeaturesArgsV4, SlateV4};
use libwallet::{Context, InitTxArgs, IssueInvoiceTxArgs, Slate, SlateState};
use std::sync::atomic::Ordering;
use std::thread;
use std::time::Duration;

#[macro_use]
mod common;
use common::{clean_output_dir, create_wallet_proxy, setup};

fn probe_impl(test_dir: &'static str) -> Result<(), libwallet::Error> {
	let mut wallet_proxy = create_wallet_proxy(test_dir);
	let chain = wallet_proxy.chain.clone();
	let stopper = wallet_proxy.running.clone();

	create_wallet_and_add!(
		client1,
		wallet1,
		mask1_i,
		test_dir,
		"wallet1",
		None,
		&mut wallet_proxy,
		true
	);
	let mask1 = (&mask1_i).as_ref();
	create_wallet_and_add!(
		client2,
		wallet2,
		mask2_i,
		test_dir,
		"wallet2",
		None,
		&mut wallet_proxy,
		true
	);
	let mask2 = (&mask2_i).as_ref();

	thread::spawn(move || {
		if let Err(e) = wallet_proxy.run() {
			error!("Wallet Proxy error: {}", e);
		}
	});

	let reward = core::consensus::REWARD;
	let _ = test_framework::award_blocks_to_wallet(&chain, wallet1.clone(), mask1, 10, false);

	// wallet 2 (the peer) invoices wallet 1
	let mut slate = Slate::blank(2, true);
	wallet::controller::owner_single_use(Some(wallet2.clone()), mask2, None, |api, m| {
		let args = IssueInvoiceTxArgs {
			amount: reward * 2,
			..Default::default()
		};
		slate = api.issue_invoice_tx(m, args)?;
		Ok(())
	})?;
	let amount = slate.amount;

	// wallet 1 pays: signs Invoice2 with a fresh (excess, nonce), locks
	wallet::controller::owner_single_use(Some(wallet1.clone()), mask1, None, |api, m| {
		let args = InitTxArgs {
			src_acct_name: None,
			amount: slate.amount,
			minimum_confirmations: 2,
			max_outputs: 500,
			num_change_outputs: 1,
			selection_strategy_is_use_all: true,
			..Default::default()
		};
		slate = api.process_invoice_tx(m, &slate, args)?;
		api.tx_lock_outputs(m, &slate)?;
		Ok(())
	})?;
	assert_eq!(slate.state, SlateState::Invoice2);
	let i2 = slate.clone();
	assert_eq!(i2.participant_data.len(), 1);
	let payer_entry_1 = i2.participant_data[0].clone();
	assert!(payer_entry_1.part_sig.is_some());
	let msg_1 = i2.msg_to_sign()?;

	// the peer now crafts a Standard2 slate with the same id, a different kernel message
	// (height locked kernel), its own output, offset share, nonce and partial signature
	let mut v4: SlateV4 = i2.clone().into();
	v4.feat = 2;
	v4.feat_args = Some(KernelFeaturesArgsV4 { lock_hgt: 1 });
	let mut crafted = Slate::from(v4);
	crafted.state = SlateState::Standard2;
	crafted.amount = amount;
	crafted.offset = BlindingFactor::zero();
	crafted.tx = Some(Slate::empty_transaction());
	crafted.participant_data[0].part_sig = None;

	let kc = ExtKeychain::from_random_seed(false).unwrap();
	let parent = ExtKeychain::derive_key_id(2, 0, 0, 0, 0);
	let key_id = ExtKeychain::derive_key_id(3, 0, 0, 7, 0);
	let mut actx = Context::new(kc.secp(), &parent, false, false);
	actx.add_output(&key_id, &None, amount);
	crafted.add_transaction_elements(
		&kc,
		&ProofBuilder::new(&kc),
		vec![build::output(amount, key_id.clone())],
	)?;
	crafted.adjust_offset(&kc, &actx)?;
	crafted.fill_round_1(&kc, &mut actx)?;
	crafted.fill_round_2(&kc, &actx.sec_key, &actx.sec_nonce)?;
	let msg_2 = crafted.msg_to_sign()?;
	assert!(msg_1 != msg_2);

	// ... and hands it to wallet 1's Foreign API
	let mut res = None;
	wallet::controller::foreign_single_use(wallet1.clone(), mask1_i.clone(), |api| {
		res = Some(api.finalize_tx(&crafted, false));
		Ok(())
	})?;
	let res = res.unwrap();
	println!("second signing request: {:?}", res.as_ref().map(|s| s.state.clone()));

	// property: the payer must not sign a second message with the nonce it already used
	if let Ok(s3) = res {
		let payer_entry_2 = s3
			.participant_data
			.iter()
			.find(|p| p.public_nonce == payer_entry_1.public_nonce)
			.cloned();
		if let Some(p2) = payer_entry_2 {
			println!(
				"same public nonce {:?}\n sig over msg1 {:?}\n sig over msg2 {:?}",
				p2.public_nonce, payer_entry_1.part_sig, p2.part_sig
			);
			assert!(
				p2.part_sig.is_none() || p2.part_sig == payer_entry_1.part_sig,
				"NONCE REUSE: payer signed two different messages with the same secret nonce"
			);
		}
	}

	stopper.store(false, Ordering::Relaxed);
	thread::sleep(Duration::from_millis(200));
	Ok(())
}

#[test]
fn probe_payer_context_second_signature() -> Result<(), libwallet::Error> {
	let test_dir = "test_output/probe_payer_ctx";
	setup(test_dir);
	probe_impl(test_dir)?;
	clean_output_dir(test_dir);
	Ok(())
}
