// Probes for behaviour of the UNCHANGED code around reverted incoming payments.
// Not part of the deliverable demonstration. To run, copy this file to
// controller/tests/revert_side_observations.rs and run
//   cargo test --offline -p grin_wallet_controller --test revert_side_observations -- --nocapture --test-threads 1
// Each test PASSES when the questionable behaviour is present (the asserts
// describe what the code does, the comments what the property would expect).

#[macro_use]
mod common;

use common::{clean_output_dir, create_wallet_proxy, setup};
use grin_chain as chain;
use grin_core as core;
use grin_core::core::hash::Hashed;
use grin_core::core::{Block, Transaction};
use grin_core::global;
use grin_keychain::ExtKeychain;
use grin_util::secp::key::SecretKey;
use grin_util::Mutex;
use grin_wallet_controller::controller::owner_single_use as owner;
use grin_wallet_impls::test_framework::*;
use grin_wallet_impls::DefaultLCProvider;
use grin_wallet_libwallet as libwallet;
use grin_wallet_libwallet::api_impl::types::InitTxArgs;
use grin_wallet_libwallet::{OutputStatus, TxLogEntryType, WalletInst};
use log::error;
use std::sync::atomic::{AtomicBool, Ordering};
use std::sync::Arc;
use std::thread;
use std::time::Duration;

type Wallet = Arc<
	Mutex<
		Box<
			dyn WalletInst<
				'static,
				DefaultLCProvider<'static, LocalWalletClient, ExtKeychain>,
				LocalWalletClient,
				ExtKeychain,
			>,
		>,
	>,
>;

struct Env {
	chain: Arc<chain::Chain>,
	chain2: Arc<chain::Chain>,
	stopper: Arc<AtomicBool>,
	stopper2: Arc<AtomicBool>,
	sent: u64,
	bh: u64,
	tx: Transaction,
	block_without: Block,
	wallet1: Wallet,
	mask1: Option<SecretKey>,
	wallet2: Wallet,
	mask2: Option<SecretKey>,
}

/// wallet1 mines 10 blocks and pays `2 * reward` to wallet2, the payment is mined in
/// block 11 of `chain`; `chain2` holds an alternative block 11 without the payment
fn confirmed_payment(test_dir: &'static str, ttl_blocks: Option<u64>) -> Result<Env, libwallet::Error> {
	let mut wallet_proxy = create_wallet_proxy(test_dir);
	let stopper = wallet_proxy.running.clone();
	let chain = wallet_proxy.chain.clone();
	let test_dir2 = format!("{}/chain2", test_dir);
	let wallet_proxy2 = create_wallet_proxy(&test_dir2);
	let chain2 = wallet_proxy2.chain.clone();
	let stopper2 = wallet_proxy2.running.clone();

	create_wallet_and_add!(
		client1,
		wallet1,
		mask1_i,
		test_dir,
		"wallet1",
		None,
		&mut wallet_proxy,
		false
	);
	let mask1 = mask1_i.as_ref();
	create_wallet_and_add!(
		client2,
		wallet2,
		mask2_i,
		test_dir,
		"wallet2",
		None,
		&mut wallet_proxy,
		false
	);
	let mask2 = mask2_i.as_ref();
	let _ = &client2;

	thread::spawn(move || {
		if let Err(e) = wallet_proxy.run() {
			error!("Wallet Proxy error: {}", e);
		}
	});

	let reward = core::consensus::REWARD;
	let cm = global::coinbase_maturity() as u64;
	let sent = reward * 2;
	let bh = 10u64;
	award_blocks_to_wallet(&chain, wallet1.clone(), mask1, bh as usize, false)?;

	owner(Some(wallet2.clone()), mask2, None, |api, m| {
		let (_, info) = api.retrieve_summary_info(m, true, 1)?;
		assert_eq!(info.last_confirmed_height, bh);
		Ok(())
	})?;

	let mut tx = None;
	owner(Some(wallet1.clone()), mask1, None, |api, m| {
		let args = InitTxArgs {
			src_acct_name: None,
			amount: sent,
			minimum_confirmations: cm,
			max_outputs: 500,
			num_change_outputs: 1,
			selection_strategy_is_use_all: false,
			ttl_blocks,
			..Default::default()
		};
		let slate = api.init_send_tx(m, args)?;
		api.tx_lock_outputs(m, &slate)?;
		let slate = client1.send_tx_slate_direct("wallet2", &slate)?;
		let slate = api.finalize_tx(m, &slate)?;
		tx = slate.tx;
		Ok(())
	})?;
	let tx = tx.expect("tx from slate");

	for i in 0..bh {
		let hash = chain.get_header_by_height(i + 1).unwrap().hash();
		let block = chain.get_block(&hash).unwrap();
		process_block(&chain2, block);
	}
	let head = chain.head_header().unwrap();
	let block_with =
		create_block_for_wallet(&chain, head.clone(), &[tx.clone()], wallet1.clone(), mask1)?;
	let block_without = create_block_for_wallet(&chain, head, &[], wallet1.clone(), mask1)?;
	process_block(&chain, block_with.clone());
	process_block(&chain2, block_without.clone());
	let bh = bh + 1;

	owner(Some(wallet2.clone()), mask2, None, |api, m| {
		let (_, info) = api.retrieve_summary_info(m, true, 1)?;
		assert_eq!(info.last_confirmed_height, bh);
		assert_eq!(info.amount_currently_spendable, sent);
		Ok(())
	})?;

	Ok(Env {
		chain,
		chain2,
		stopper,
		stopper2,
		sent,
		bh,
		tx,
		block_without,
		wallet1,
		mask1: mask1_i,
		wallet2,
		mask2: mask2_i,
	})
}

/// the fork without the payment gets `extra` blocks on top and replaces the main chain
fn reorg(env: &mut Env, extra: u64) -> Result<(), libwallet::Error> {
	let mut new_blocks = vec![];
	for _ in 0..extra {
		award_block_to_wallet(&env.chain2, &[], env.wallet1.clone(), env.mask1.as_ref())?;
		new_blocks.push(
			env.chain2
				.get_block(&env.chain2.head_header().unwrap().hash())
				.unwrap(),
		);
	}
	process_block(&env.chain, env.block_without.clone());
	for b in new_blocks {
		process_block(&env.chain, b);
	}
	env.bh += extra;
	assert_eq!(env.chain.head_header().unwrap().height, env.bh);
	assert_eq!(
		env.chain.head_header().unwrap().hash(),
		env.chain2.head_header().unwrap().hash()
	);
	Ok(())
}

fn finish(env: &Env) {
	env.stopper.store(false, Ordering::Relaxed);
	env.stopper2.store(false, Ordering::Relaxed);
	thread::sleep(Duration::from_millis(500));
}

/// S1: the received output is Locked (reserved by an unfinished send of wallet2) when the
/// re-org happens. find_reverted_kernels only looks at outputs that were Unspent, so the
/// scan marks the output Spent and the payment stays "Received, confirmed" for ever.
fn locked_at_reorg_impl(test_dir: &'static str) -> Result<(), libwallet::Error> {
	let mut env = confirmed_payment(test_dir, None)?;
	let (wallet2, mask2_i, sent) = (env.wallet2.clone(), env.mask2.clone(), env.sent);
	let mask2 = mask2_i.as_ref();

	owner(Some(wallet2.clone()), mask2, None, |api, m| {
		let args = InitTxArgs {
			amount: sent / 2,
			minimum_confirmations: 1,
			max_outputs: 500,
			num_change_outputs: 1,
			..Default::default()
		};
		let slate = api.init_send_tx(m, args)?;
		api.tx_lock_outputs(m, &slate)?;
		let (_, info) = api.retrieve_summary_info(m, false, 1)?;
		assert_eq!(info.amount_locked, sent);
		Ok(())
	})?;

	reorg(&mut env, 1)?;

	owner(Some(wallet2.clone()), mask2, None, |api, m| {
		api.scan(m, None, false)?;
		let (_, info) = api.retrieve_summary_info(m, true, 1)?;
		println!("S1 info after scan: {:?}", info);
		let (_, txs) = api.retrieve_txs(m, true, None, None, None)?;
		let recv = txs
			.iter()
			.find(|t| t.amount_credited == sent && t.amount_debited == 0)
			.unwrap();
		println!("S1 receive entry after scan: {:?} confirmed={}", recv.tx_type, recv.confirmed);
		// property would expect TxReverted / amount_reverted == sent
		assert_eq!(recv.tx_type, TxLogEntryType::TxReceived);
		assert!(recv.confirmed);
		assert_eq!(info.amount_reverted, 0);
		let (_, outs) = api.retrieve_outputs(m, true, false, None)?;
		let o = outs.iter().find(|o| o.output.value == sent).unwrap();
		assert_eq!(o.output.status, OutputStatus::Spent);
		Ok(())
	})?;
	finish(&env);
	Ok(())
}

/// S2: inputs chosen by init_send_tx before the re-org are locked by tx_lock_outputs after
/// the scan has marked them Reverted (lock_tx_context refuses Locked and Spent only).
fn lock_after_revert_impl(test_dir: &'static str) -> Result<(), libwallet::Error> {
	let mut env = confirmed_payment(test_dir, None)?;
	let (wallet2, mask2_i, sent) = (env.wallet2.clone(), env.mask2.clone(), env.sent);
	let mask2 = mask2_i.as_ref();

	let mut slate = None;
	owner(Some(wallet2.clone()), mask2, None, |api, m| {
		let args = InitTxArgs {
			amount: sent / 2,
			minimum_confirmations: 1,
			max_outputs: 500,
			num_change_outputs: 1,
			..Default::default()
		};
		slate = Some(api.init_send_tx(m, args)?);
		Ok(())
	})?;
	let slate = slate.unwrap();

	reorg(&mut env, 1)?;

	owner(Some(wallet2.clone()), mask2, None, |api, m| {
		api.scan(m, None, false)?;
		let (_, info) = api.retrieve_summary_info(m, true, 1)?;
		assert_eq!(info.amount_reverted, sent);
		// property would expect this to be refused
		let res = api.tx_lock_outputs(m, &slate);
		println!("S2 tx_lock_outputs on a reverted input: {:?}", res);
		assert!(res.is_ok());
		let (_, info) = api.retrieve_summary_info(m, false, 1)?;
		println!("S2 info after lock: {:?}", info);
		assert_eq!(info.amount_reverted, 0);
		assert_eq!(info.amount_locked, sent);
		Ok(())
	})?;
	finish(&env);
	Ok(())
}

/// S3: the payment carries a TTL. After it has been reverted at a height past the cut-off,
/// the next ordinary refresh cancels it (update_wallet_state step 5 treats a TxReverted
/// entry like a never-confirmed one) and deletes the output; when it is mined again the
/// original entry stays cancelled.
fn ttl_cancels_reverted_impl(test_dir: &'static str) -> Result<(), libwallet::Error> {
	let mut env = confirmed_payment(test_dir, Some(3))?;
	let (wallet2, mask2_i) = (env.wallet2.clone(), env.mask2.clone());
	let mask2 = mask2_i.as_ref();

	// cut-off is 10 + 3 = 13; the fork reaches 13
	reorg(&mut env, 2)?;
	assert_eq!(env.bh, 13);

	owner(Some(wallet2.clone()), mask2, None, |api, m| {
		api.scan(m, None, false)?;
		let (_, txs) = api.retrieve_txs(m, false, None, None, None)?;
		println!("S3 after scan: {:?}", txs[0].tx_type);
		assert_eq!(txs[0].tx_type, TxLogEntryType::TxReverted);
		let (_, info) = api.retrieve_summary_info(m, true, 1)?;
		println!("S3 info after ordinary refresh: {:?}", info);
		let (_, txs) = api.retrieve_txs(m, false, None, None, None)?;
		println!("S3 after ordinary refresh: {:?}", txs[0].tx_type);
		// property would expect TxReverted / amount_reverted == sent to persist
		assert_eq!(txs[0].tx_type, TxLogEntryType::TxReceivedCancelled);
		assert_eq!(info.amount_reverted, 0);
		Ok(())
	})?;

	// mined again
	award_block_to_wallet(&env.chain, &[env.tx.clone()], env.wallet1.clone(), env.mask1.as_ref())?;
	owner(Some(wallet2.clone()), mask2, None, |api, m| {
		let (_, info) = api.retrieve_summary_info(m, true, 1)?;
		println!("S3 info after re-mining: {:?}", info);
		let (_, txs) = api.retrieve_txs(m, false, None, None, None)?;
		for t in &txs {
			println!("S3 entry after re-mining: id {} {:?} confirmed={}", t.id, t.tx_type, t.confirmed);
		}
		// property would expect the original entry confirmed again
		assert_eq!(txs[0].tx_type, TxLogEntryType::TxReceivedCancelled);
		Ok(())
	})?;
	finish(&env);
	Ok(())
}

#[test]
fn side_locked_at_reorg() {
	let test_dir = "test_output/revert_side_locked";
	setup(test_dir);
	if let Err(e) = locked_at_reorg_impl(test_dir) {
		panic!("Libwallet Error: {}", e);
	}
	clean_output_dir(test_dir);
}

#[test]
fn side_lock_after_revert() {
	let test_dir = "test_output/revert_side_lock_after";
	setup(test_dir);
	if let Err(e) = lock_after_revert_impl(test_dir) {
		panic!("Libwallet Error: {}", e);
	}
	clean_output_dir(test_dir);
}

#[test]
fn side_ttl_cancels_reverted() {
	let test_dir = "test_output/revert_side_ttl";
	setup(test_dir);
	if let Err(e) = ttl_cancels_reverted_impl(test_dir) {
		panic!("Libwallet Error: {}", e);
	}
	clean_output_dir(test_dir);
}
