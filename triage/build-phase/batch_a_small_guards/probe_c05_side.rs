// Probe tests for behaviour of the UNCHANGED code that seems to violate the
// "cancel is an exact rollback" property. Each test asserts what the property
// demands, so a FAILING test here = the unchanged code violates it.
//
// To run: copy to controller/tests/c05_side_probe.rs and
//   cargo test --offline -p grin_wallet_controller --test c05_side_probe -- --nocapture --test-threads 1
#[macro_use]
extern crate log;
extern crate grin_wallet_controller as wallet;
extern crate grin_wallet_impls as impls;

use grin_core as core;

use grin_wallet_libwallet as libwallet;
use impls::test_framework::{self, LocalWalletClient};
use libwallet::{InitTxArgs, OutputStatus, TxLogEntryType};
use std::sync::atomic::Ordering;
use std::thread;
use std::time::Duration;

#[macro_use]
mod common;
use common::{clean_output_dir, create_wallet_proxy, setup};

macro_rules! two_wallets {
	($test_dir:expr, $proxy:ident, $chain:ident, $stopper:ident,
	 $client1:ident, $wallet1:ident, $mask1:ident, $client2:ident, $wallet2:ident, $mask2:ident) => {
		let mut $proxy = create_wallet_proxy($test_dir);
		let $chain = $proxy.chain.clone();
		let $stopper = $proxy.running.clone();
		create_wallet_and_add!(
			$client1,
			$wallet1,
			mask1_i,
			$test_dir,
			"wallet1",
			None,
			&mut $proxy,
			false
		);
		let $mask1 = (&mask1_i).as_ref();
		create_wallet_and_add!(
			$client2,
			$wallet2,
			mask2_i,
			$test_dir,
			"wallet2",
			None,
			&mut $proxy,
			false
		);
		let $mask2 = (&mask2_i).as_ref();
		thread::spawn(move || {
			if let Err(e) = $proxy.run() {
				error!("Wallet Proxy error: {}", e);
			}
		});
	};
}

/// S1: an Unconfirmed (never mined) received output is spent with
/// minimum_confirmations = 0 in a second transaction; cancelling that second
/// transaction turns the output into Unspent instead of back to Unconfirmed.
fn s1_impl(test_dir: &'static str) -> Result<(), libwallet::Error> {
	two_wallets!(test_dir, proxy, chain, stopper, client1, wallet1, mask1, client2, wallet2, mask2);
	let reward = core::consensus::REWARD;
	let _ = test_framework::award_blocks_to_wallet(&chain, wallet1.clone(), mask1, 10, false);

	// A: wallet1 -> wallet2, never posted
	let mut slate_a = None;
	wallet::controller::owner_single_use(Some(wallet1.clone()), mask1, None, |api, m| {
		let args = InitTxArgs {
			amount: reward * 2,
			minimum_confirmations: 1,
			max_outputs: 500,
			num_change_outputs: 1,
			..Default::default()
		};
		let slate = api.init_send_tx(m, args)?;
		let slate = client1.send_tx_slate_direct("wallet2", &slate)?;
		api.tx_lock_outputs(m, &slate)?;
		let slate = api.finalize_tx(m, &slate)?;
		slate_a = Some(slate.id);
		Ok(())
	})?;
	let slate_a = slate_a.unwrap();

	wallet::controller::owner_single_use(Some(wallet2.clone()), mask2, None, |api, m| {
		let (_, info_before) = api.retrieve_summary_info(m, true, 1)?;
		assert_eq!(info_before.total, 0);
		assert_eq!(info_before.amount_currently_spendable, 0);
		assert_eq!(info_before.amount_awaiting_finalization, reward * 2);
		let (_, outs) = api.retrieve_outputs(m, true, false, None)?;
		assert_eq!(outs.len(), 1);
		assert_eq!(outs[0].output.status, OutputStatus::Unconfirmed);

		// B: wallet2 spends the unconfirmed output (zero-conf) back to wallet1
		let args = InitTxArgs {
			amount: reward,
			minimum_confirmations: 0,
			max_outputs: 500,
			num_change_outputs: 1,
			..Default::default()
		};
		let slate = api.init_send_tx(m, args)?;
		let slate = client2.send_tx_slate_direct("wallet1", &slate)?;
		api.tx_lock_outputs(m, &slate)?;
		let (_, outs) = api.retrieve_outputs(m, true, false, None)?;
		println!("S1 outputs while B is pending: {:?}", outs.iter().map(|o| (o.output.status.clone(), o.output.value, o.output.tx_log_entry)).collect::<Vec<_>>());

		// cancel B
		api.cancel_tx(m, None, Some(slate.id))?;
		let (_, outs) = api.retrieve_outputs(m, true, false, None)?;
		println!("S1 outputs after cancelling B: {:?}", outs.iter().map(|o| (o.output.status.clone(), o.output.value, o.output.tx_log_entry)).collect::<Vec<_>>());
		let (_, info_after) = api.retrieve_summary_info(m, true, 1)?;
		println!("S1 info before: {:?}", info_before);
		println!("S1 info after : {:?}", info_after);

		// cancel A as well: its incoming output should be gone
		api.cancel_tx(m, None, Some(slate_a))?;
		let (_, outs2) = api.retrieve_outputs(m, true, false, None)?;
		println!("S1 outputs after cancelling A too: {:?}", outs2.iter().map(|o| (o.output.status.clone(), o.output.value, o.output.tx_log_entry)).collect::<Vec<_>>());
		let (_, info_end) = api.retrieve_summary_info(m, true, 1)?;
		println!("S1 info end   : {:?}", info_end);

		assert_eq!(outs.len(), 1);
		assert_eq!(
			outs[0].output.status,
			OutputStatus::Unconfirmed,
			"S1: output was Unconfirmed before B, must be Unconfirmed after cancelling B"
		);
		assert_eq!(info_after.total, info_before.total);
		assert_eq!(outs2.len(), 0, "S1: incoming output of cancelled A still there");
		Ok(())
	})?;

	stopper.store(false, Ordering::Relaxed);
	thread::sleep(Duration::from_millis(200));
	Ok(())
}

/// S2: cancel_tx with neither a log id nor a slate id ("unknown transaction")
/// cancels the entry when the account happens to hold exactly one.
fn s2_impl(test_dir: &'static str) -> Result<(), libwallet::Error> {
	two_wallets!(test_dir, proxy, chain, stopper, client1, wallet1, mask1, _client2, wallet2, mask2);
	let reward = core::consensus::REWARD;
	let _ = test_framework::award_blocks_to_wallet(&chain, wallet1.clone(), mask1, 10, false);
	wallet::controller::owner_single_use(Some(wallet1.clone()), mask1, None, |api, m| {
		let args = InitTxArgs {
			amount: reward * 2,
			minimum_confirmations: 1,
			max_outputs: 500,
			num_change_outputs: 1,
			..Default::default()
		};
		let slate = api.init_send_tx(m, args)?;
		let slate = client1.send_tx_slate_direct("wallet2", &slate)?;
		api.tx_lock_outputs(m, &slate)?;
		api.finalize_tx(m, &slate)?;
		Ok(())
	})?;
	wallet::controller::owner_single_use(Some(wallet2.clone()), mask2, None, |api, m| {
		let res = api.cancel_tx(m, None, None);
		println!("S2 cancel_tx(None, None) -> {:?}", res);
		let (_, txs) = api.retrieve_txs(m, true, None, None, None)?;
		println!("S2 entry type afterwards: {:?}", txs[0].tx_type);
		assert!(res.is_err(), "S2: cancel without any id was accepted");
		assert_eq!(txs[0].tx_type, TxLogEntryType::TxReceived);
		Ok(())
	})?;
	stopper.store(false, Ordering::Relaxed);
	thread::sleep(Duration::from_millis(200));
	Ok(())
}

/// S3: after a cancel, tx_lock_outputs with the old slate is accepted again
/// (only a live TxSent entry blocks it): a second log entry with the same
/// slate id appears, and from then on a cancel by slate id is refused.
fn s3_impl(test_dir: &'static str) -> Result<(), libwallet::Error> {
	two_wallets!(test_dir, proxy, chain, stopper, client1, wallet1, mask1, _client2, _wallet2, _mask2);
	let reward = core::consensus::REWARD;
	let _ = test_framework::award_blocks_to_wallet(&chain, wallet1.clone(), mask1, 10, false);
	wallet::controller::owner_single_use(Some(wallet1.clone()), mask1, None, |api, m| {
		let args = InitTxArgs {
			amount: reward * 2,
			minimum_confirmations: 1,
			max_outputs: 500,
			num_change_outputs: 1,
			..Default::default()
		};
		let slate = api.init_send_tx(m, args)?;
		let slate = client1.send_tx_slate_direct("wallet2", &slate)?;
		api.tx_lock_outputs(m, &slate)?;
		api.cancel_tx(m, None, Some(slate.id))?;
		let (_, info) = api.retrieve_summary_info(m, true, 1)?;
		assert_eq!(info.amount_locked, 0);

		let relock = api.tx_lock_outputs(m, &slate);
		println!("S3 tx_lock_outputs after cancel -> {:?}", relock);
		let (_, txs) = api.retrieve_txs(m, true, None, Some(slate.id), None)?;
		println!("S3 entries for the slate: {:?}", txs.iter().map(|t| (t.id, t.tx_type.clone())).collect::<Vec<_>>());
		let (_, info) = api.retrieve_summary_info(m, true, 1)?;
		println!("S3 locked after re-lock: {}", info.amount_locked);
		let res = api.cancel_tx(m, None, Some(slate.id));
		println!("S3 cancel by slate id of the re-locked tx -> {:?}", res);
		let (_, info) = api.retrieve_summary_info(m, true, 1)?;
		println!("S3 locked after second cancel: {}", info.amount_locked);
		assert!(
			relock.is_err() || res.is_ok(),
			"S3: re-locked transaction cannot be cancelled by slate id"
		);
		assert_eq!(info.amount_locked, 0);
		Ok(())
	})?;
	stopper.store(false, Ordering::Relaxed);
	thread::sleep(Duration::from_millis(200));
	Ok(())
}

#[test]
fn s1_zero_conf_respend_then_cancel() {
	let test_dir = "test_output/c05_side_s1";
	setup(test_dir);
	if let Err(e) = s1_impl(test_dir) {
		panic!("Libwallet Error: {}", e);
	}
	clean_output_dir(test_dir);
}

#[test]
fn s2_cancel_without_id() {
	let test_dir = "test_output/c05_side_s2";
	setup(test_dir);
	if let Err(e) = s2_impl(test_dir) {
		panic!("Libwallet Error: {}", e);
	}
	clean_output_dir(test_dir);
}

#[test]
fn s3_relock_after_cancel() {
	let test_dir = "test_output/c05_side_s3";
	setup(test_dir);
	if let Err(e) = s3_impl(test_dir) {
		panic!("Libwallet Error: {}", e);
	}
	clean_output_dir(test_dir);
}
