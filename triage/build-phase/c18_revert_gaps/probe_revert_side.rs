// Probes on the UNCHANGED code (not part of the seeded change).
// Intended location for running: controller/tests/revert_side_probe.rs
//   cp OUT/side_observations/revert_side_probe.rs controller/tests/ &&
//   cargo test --offline -p grin_wallet_controller --test revert_side_probe -- --nocapture --test-threads 1
//
// Every test states what the property "a reorganised-away incoming payment is found reverted
// by scan, never spendable" asks for; a test that FAILS shows a history in which the unchanged
// code does not deliver it.

#[macro_use]
mod common;

use common::{clean_output_dir, create_wallet_proxy, setup};
use grin_core as core;
use grin_core::core::hash::Hashed;
use grin_core::global;
use grin_util::ZeroingString;
use grin_wallet_controller::controller::owner_single_use as owner;
use grin_wallet_impls::test_framework::*;
use grin_wallet_libwallet as libwallet;
use grin_wallet_libwallet::api_impl::types::InitTxArgs;
use libwallet::{OutputStatus, TxLogEntryType};
use log::error;
use std::sync::atomic::Ordering;
use std::thread;
use std::time::Duration;

#[derive(Clone, Copy, PartialEq, Debug)]
enum Scenario {
	/// plain case, as a control: must pass
	Control,
	/// the receiver starts a send that reserves the received output and cancels it again,
	/// all before the reorganisation
	CancelledSend,
	/// the receiver has a send in flight (output Locked) when the reorganisation happens
	LockedAtReorg,
	/// the payment sits in account "b", the scan is run while "default" is the active account
	OtherAccountActive,
	/// the receiving wallet was restored from its seed after the payment confirmed
	RestoredWallet,
	/// the coinbase of the orphaned block, in the wallet of the miner of that block
	OrphanedCoinbaseLog,
}

fn probe(test_dir: &'static str, sc: Scenario) -> Result<(), libwallet::Error> {
	let seed_phrase = "affair pistol cancel crush garment candy ancient flag work \
	                   market crush dry stand focus mutual weapon offer ceiling rival turn team spring \
	                   where swift";
	let seed_phrase = Some(ZeroingString::from(seed_phrase));
	let no_seed: Option<ZeroingString> = None;

	let mut wallet_proxy = create_wallet_proxy(test_dir);
	let stopper = wallet_proxy.running.clone();
	let chain = wallet_proxy.chain.clone();
	let test_dir2 = format!("{}/chain2", test_dir);
	let wallet_proxy2 = create_wallet_proxy(&test_dir2);
	let chain2 = wallet_proxy2.chain.clone();
	let stopper2 = wallet_proxy2.running.clone();

	create_wallet_and_add!(
		client1,
		wallet1,
		mask1_i,
		test_dir,
		"wallet1",
		no_seed,
		&mut wallet_proxy,
		false
	);
	let mask1 = mask1_i.as_ref();
	// the receiver
	create_wallet_and_add!(
		client2,
		wallet2,
		mask2_i,
		test_dir,
		"wallet2",
		seed_phrase,
		&mut wallet_proxy,
		false
	);
	let mask2 = mask2_i.as_ref();
	// same seed as the receiver, used for the restore scenario only
	create_wallet_and_add!(
		client3,
		wallet3,
		mask3_i,
		test_dir,
		"wallet3",
		seed_phrase,
		&mut wallet_proxy,
		false
	);
	let mask3 = mask3_i.as_ref();
	// mines the block that is orphaned later
	create_wallet_and_add!(
		client4,
		wallet4,
		mask4_i,
		test_dir,
		"wallet4",
		no_seed,
		&mut wallet_proxy,
		false
	);
	let mask4 = mask4_i.as_ref();
	let _ = (client2, client3, client4);

	std::thread::spawn(move || {
		if let Err(e) = wallet_proxy.run() {
			error!("Wallet Proxy error: {}", e);
		}
	});

	if sc == Scenario::OtherAccountActive {
		owner(Some(wallet2.clone()), mask2, None, |api, m| {
			api.create_account_path(m, "b")?;
			api.set_active_account(m, "b")?;
			Ok(())
		})?;
	}

	let reward = core::consensus::REWARD;
	let cm = global::coinbase_maturity() as u64;
	let sent = reward * 2;

	let bh = 10u64;
	award_blocks_to_wallet(&chain, wallet1.clone(), mask1, bh as usize, false)?;

	let mut tx = None;
	owner(Some(wallet1.clone()), mask1, None, |api, m| {
		let args = InitTxArgs {
			src_acct_name: None,
			amount: sent,
			minimum_confirmations: cm,
			max_outputs: 500,
			num_change_outputs: 1,
			selection_strategy_is_use_all: false,
			..Default::default()
		};
		let slate = api.init_send_tx(m, args)?;
		api.tx_lock_outputs(m, &slate)?;
		let slate = client1.send_tx_slate_direct("wallet2", &slate)?;
		let slate = api.finalize_tx(m, &slate)?;
		tx = slate.tx;
		Ok(())
	})?;
	let tx = tx.expect("tx from slate");

	for i in 0..bh {
		let hash = chain.get_header_by_height(i + 1).unwrap().hash();
		let block = chain.get_block(&hash).unwrap();
		process_block(&chain2, block);
	}

	// height 11: with the payment (mined by wallet4) / without it (mined by wallet1)
	let head = chain.head_header().unwrap();
	let block_with =
		create_block_for_wallet(&chain, head.clone(), &[tx.clone()], wallet4.clone(), mask4)?;
	let block_without = create_block_for_wallet(&chain, head, &[], wallet1.clone(), mask1)?;
	process_block(&chain, block_with.clone());
	process_block(&chain2, block_without.clone());

	// everybody sees the payment confirmed
	owner(Some(wallet2.clone()), mask2, None, |api, m| {
		let (_, info) = api.retrieve_summary_info(m, true, 1)?;
		assert_eq!(info.amount_currently_spendable, sent);
		Ok(())
	})?;
	owner(Some(wallet4.clone()), mask4, None, |api, m| {
		let (_, info) = api.retrieve_summary_info(m, true, 1)?;
		assert!(info.total > 0);
		let (_, txs) = api.retrieve_txs(m, false, None, None, None)?;
		assert_eq!(txs.len(), 1);
		assert_eq!(txs[0].tx_type, TxLogEntryType::ConfirmedCoinbase);
		Ok(())
	})?;

	// the wallet under observation
	let (wallet_r, mask_r) = match sc {
		Scenario::RestoredWallet => (wallet3.clone(), mask3),
		Scenario::OrphanedCoinbaseLog => (wallet4.clone(), mask4),
		_ => (wallet2.clone(), mask2),
	};

	match sc {
		Scenario::CancelledSend | Scenario::LockedAtReorg => {
			owner(Some(wallet2.clone()), mask2, None, |api, m| {
				let args = InitTxArgs {
					src_acct_name: None,
					amount: reward,
					minimum_confirmations: 1,
					max_outputs: 500,
					num_change_outputs: 1,
					selection_strategy_is_use_all: false,
					..Default::default()
				};
				let slate = api.init_send_tx(m, args)?;
				api.tx_lock_outputs(m, &slate)?;
				if sc == Scenario::CancelledSend {
					api.cancel_tx(m, None, Some(slate.id))?;
					let (_, info) = api.retrieve_summary_info(m, true, 1)?;
					assert_eq!(info.amount_currently_spendable, sent);
				}
				Ok(())
			})?;
		}
		Scenario::RestoredWallet => {
			// wallet3 (same seed) learns about the payment from the chain only
			owner(Some(wallet3.clone()), mask3, None, |api, m| {
				api.scan(m, None, false)?;
				let (_, info) = api.retrieve_summary_info(m, true, 1)?;
				assert_eq!(info.amount_currently_spendable, sent);
				let (_, txs) = api.retrieve_txs(m, false, None, None, None)?;
				assert_eq!(txs.len(), 1);
				assert_eq!(txs[0].tx_type, TxLogEntryType::TxReceived);
				assert!(txs[0].confirmed);
				eprintln!(
					"PROBE {:?}: restored entry kernel_excess = {:?}",
					sc, txs[0].kernel_excess
				);
				Ok(())
			})?;
		}
		Scenario::OtherAccountActive => {
			owner(Some(wallet2.clone()), mask2, None, |api, m| {
				api.set_active_account(m, "default")?;
				Ok(())
			})?;
		}
		_ => {}
	}

	// the fork without the payment wins
	award_block_to_wallet(&chain2, &[], wallet1.clone(), mask1)?;
	let new_head = chain2
		.get_block(&chain2.head_header().unwrap().hash())
		.unwrap();
	process_block(&chain, block_without.clone());
	process_block(&chain, new_head.clone());
	assert_eq!(chain.head_header().unwrap(), new_head.header);

	// full scan, then look
	let mut failures: Vec<String> = vec![];
	owner(Some(wallet_r.clone()), mask_r, None, |api, m| {
		api.scan(m, None, false)?;
		if sc == Scenario::OtherAccountActive {
			api.set_active_account(m, "b")?;
		}
		let (_, info) = api.retrieve_summary_info(m, true, 1)?;
		let (_, txs) = api.retrieve_txs(m, false, None, None, None)?;
		let (_, outs) = api.retrieve_outputs(m, true, false, None)?;
		eprintln!(
			"PROBE {:?}: after reorg+scan: total {} spendable {} reverted {} locked {}",
			sc,
			info.total,
			info.amount_currently_spendable,
			info.amount_reverted,
			info.amount_locked
		);
		for t in &txs {
			eprintln!(
				"PROBE {:?}:   tx {} {:?} confirmed {} credited {} debited {}",
				sc, t.id, t.tx_type, t.confirmed, t.amount_credited, t.amount_debited
			);
		}
		for o in &outs {
			eprintln!(
				"PROBE {:?}:   output value {} {:?} coinbase {} tx_log_entry {:?}",
				sc, o.output.value, o.output.status, o.output.is_coinbase, o.output.tx_log_entry
			);
		}
		if sc == Scenario::OrphanedCoinbaseLog {
			if info.total != 0 {
				failures.push(format!("orphaned coinbase still in total: {}", info.total));
			}
			let (c, _) = libwallet::TxLogEntry::sum_confirmed(&txs);
			if c != 0 {
				failures.push(format!(
					"tx log still credits the orphaned coinbase as confirmed: {}",
					c
				));
			}
			return Ok(());
		}
		if info.amount_currently_spendable != 0 || info.total != 0 {
			failures.push(format!(
				"reorganised-away payment still counted: total {} spendable {}",
				info.total, info.amount_currently_spendable
			));
		}
		let rcv: Vec<_> = txs
			.iter()
			.filter(|t| {
				t.tx_type == TxLogEntryType::TxReceived || t.tx_type == TxLogEntryType::TxReverted
			})
			.collect();
		if rcv.len() != 1 {
			failures.push(format!("{} receive entries", rcv.len()));
		} else if rcv[0].tx_type != TxLogEntryType::TxReverted || rcv[0].confirmed {
			failures.push(format!(
				"payment not reported reverted: {:?} confirmed {}",
				rcv[0].tx_type, rcv[0].confirmed
			));
		}
		if !outs
			.iter()
			.any(|o| o.output.value == sent && o.output.status == OutputStatus::Reverted)
		{
			failures.push("received output is not Reverted".to_owned());
		}
		Ok(())
	})?;

	// the payment is mined again, ordinary refresh
	if sc != Scenario::OrphanedCoinbaseLog {
		award_block_to_wallet(&chain, &[tx], wallet1.clone(), mask1)?;
		owner(Some(wallet_r.clone()), mask_r, None, |api, m| {
			let (_, info) = api.retrieve_summary_info(m, true, 1)?;
			let (_, txs) = api.retrieve_txs(m, false, None, None, None)?;
			eprintln!(
				"PROBE {:?}: after re-mining+refresh: total {} spendable {} reverted {} locked {}",
				sc,
				info.total,
				info.amount_currently_spendable,
				info.amount_reverted,
				info.amount_locked
			);
			for t in &txs {
				eprintln!(
					"PROBE {:?}:   tx {} {:?} confirmed {} credited {}",
					sc, t.id, t.tx_type, t.confirmed, t.amount_credited
				);
			}
			if info.total + info.amount_locked != sent {
				failures.push(format!(
					"after re-mining the payment is not counted again: total {} locked {}",
					info.total, info.amount_locked
				));
			}
			if !txs
				.iter()
				.any(|t| t.tx_type == TxLogEntryType::TxReceived && t.confirmed)
			{
				failures.push("after re-mining no confirmed receive entry".to_owned());
			}
			Ok(())
		})?;
	}

	stopper2.store(false, Ordering::Relaxed);
	stopper.store(false, Ordering::Relaxed);
	thread::sleep(Duration::from_millis(500));
	if !failures.is_empty() {
		panic!("PROBE {:?} property violated: {:#?}", sc, failures);
	}
	Ok(())
}

fn run(test_dir: &'static str, sc: Scenario) {
	setup(test_dir);
	if let Err(e) = probe(test_dir, sc) {
		panic!("Libwallet Error: {}", e);
	}
	clean_output_dir(test_dir);
}

#[test]
fn probe_control() {
	run("test_output/revert_probe_control", Scenario::Control);
}

#[test]
fn probe_cancelled_send() {
	run("test_output/revert_probe_cancelled_send", Scenario::CancelledSend);
}

#[test]
fn probe_locked_at_reorg() {
	run("test_output/revert_probe_locked", Scenario::LockedAtReorg);
}

#[test]
fn probe_other_account_active() {
	run("test_output/revert_probe_other_acct", Scenario::OtherAccountActive);
}

#[test]
fn probe_restored_wallet() {
	run("test_output/revert_probe_restored", Scenario::RestoredWallet);
}

#[test]
fn probe_orphaned_coinbase_log() {
	run("test_output/revert_probe_cb", Scenario::OrphanedCoinbaseLog);
}
