// Side observation probe (UNCHANGED code): a V4 slate JSON whose coms[].p hex
// string decodes to more than 675 bytes (MAX_PROOF_SIZE) panics with
// "index out of bounds" inside RangeProof's serde visitor
// (grin_secp256k1zkp pedersen.rs visit_seq: `ret[i] = val` without bound),
// reached through libwallet/src/slate_versions/ser.rs option_rangeproof_hex::deserialize,
// which does not check the decoded length.
//
// To run: copy to libwallet/tests/rangeproof_hex_overlong.rs and
//   cargo test --offline -p grin_wallet_libwallet --test rangeproof_hex_overlong -- --nocapture

use grin_core::global;
use grin_util::secp::pedersen::{Commitment, RangeProof};
use grin_wallet_libwallet::slate_versions::v4::{CommitsV4, OutputFeaturesV4, SlateV4};
use grin_wallet_libwallet::{Slate, VersionedSlate};

#[test]
fn v4_json_overlong_rangeproof_hex() {
	global::set_local_chain_type(global::ChainTypes::AutomatedTesting);
	let slate = Slate::blank(2, false);
	let mut v4 = SlateV4::from(slate);
	let mut proof = RangeProof::zero();
	proof.plen = 675;
	v4.coms = Some(vec![CommitsV4 {
		f: OutputFeaturesV4(0),
		c: Commitment::from_vec(vec![9u8; 33]),
		p: Some(proof),
	}]);
	let json = serde_json::to_string(&v4).unwrap();
	// sanity: the full-size proof is accepted
	assert!(serde_json::from_str::<VersionedSlate>(&json).is_ok());
	// one more byte in the hex string
	let full = "00".repeat(675);
	assert!(json.contains(&full));
	let longer = json.replace(&full, &"00".repeat(676));
	let res = std::panic::catch_unwind(|| serde_json::from_str::<VersionedSlate>(&longer).is_ok());
	assert!(res.is_ok(), "decoder panicked on a 676 byte range proof");
	assert_eq!(res.unwrap(), false);
}
