// Side observation probe (UNCHANGED code): `get_stored_tx(Some(tx_id), None)` - what the
// `repost` command uses - looks the log entry up by its numeric id over ALL accounts,
// while log ids are allocated per account. With two accounts that both have an entry
// with the same id, asking (with the second account active) for the transaction stored
// for one's own entry returns the transaction of the other account.
//
// To run: copy to controller/tests/stored_tx_wrong_account.rs and
//   cargo test --offline -p grin_wallet_controller --test stored_tx_wrong_account -- --nocapture
// The test PANICS on the unchanged code (that is the observation).
#[macro_use]
extern crate log;
extern crate grin_wallet_controller as wallet;
extern crate grin_wallet_impls as impls;
extern crate grin_wallet_libwallet as libwallet;

use self::libwallet::{InitTxArgs, TxLogEntryType};
use impls::test_framework::{self, LocalWalletClient};
use std::sync::atomic::Ordering;
use std::thread;
use std::time::Duration;

#[macro_use]
mod common;
use common::{clean_output_dir, create_wallet_proxy, setup};

fn probe_impl(test_dir: &'static str) -> Result<(), libwallet::Error> {
	let mut wallet_proxy = create_wallet_proxy(test_dir);
	let chain = wallet_proxy.chain.clone();
	let stopper = wallet_proxy.running.clone();

	create_wallet_and_add!(
		client1,
		wallet1,
		mask1_i,
		test_dir,
		"wallet1",
		None,
		&mut wallet_proxy,
		false
	);
	let mask1 = (&mask1_i).as_ref();
	create_wallet_and_add!(
		client2,
		wallet2,
		mask2_i,
		test_dir,
		"wallet2",
		None,
		&mut wallet_proxy,
		false
	);
	let mask2 = (&mask2_i).as_ref();
	let _ = &client2;

	thread::spawn(move || {
		if let Err(e) = wallet_proxy.run() {
			error!("Wallet Proxy error: {}", e);
		}
	});

	wallet::controller::owner_single_use(Some(wallet1.clone()), mask1, None, |api, m| {
		api.create_account_path(m, "second")?;
		Ok(())
	})?;

	// four blocks to each account: log ids 0..3 in both
	test_framework::award_blocks_to_wallet(&chain, wallet1.clone(), mask1, 4, false)?;
	{
		wallet_inst!(wallet1, w);
		w.set_parent_key_id_by_name("second")?;
	}
	test_framework::award_blocks_to_wallet(&chain, wallet1.clone(), mask1, 4, false)?;
	{
		wallet_inst!(wallet1, w);
		w.set_parent_key_id_by_name("default")?;
	}
	// maturity, mined elsewhere so that the ids in wallet1 stay aligned
	test_framework::award_blocks_to_wallet(&chain, wallet2.clone(), mask2, 3, false)?;

	let mut ids = vec![];
	for (acct, amount) in &[("default", 1_000_000_000u64), ("second", 2_000_000_000u64)] {
		wallet::controller::owner_single_use(Some(wallet1.clone()), mask1, None, |api, m| {
			api.set_active_account(m, acct)?;
			let args = InitTxArgs {
				src_acct_name: None,
				amount: *amount,
				minimum_confirmations: 1,
				max_outputs: 500,
				num_change_outputs: 1,
				selection_strategy_is_use_all: false,
				..Default::default()
			};
			let slate_i = api.init_send_tx(m, args)?;
			api.tx_lock_outputs(m, &slate_i)?;
			let reply = client1.send_tx_slate_direct("wallet2", &slate_i)?;
			let fin = api.finalize_tx(m, &reply)?;
			let (_, txs) = api.retrieve_txs(m, false, None, Some(slate_i.id), None)?;
			let t = txs
				.iter()
				.find(|t| t.tx_type == TxLogEntryType::TxSent)
				.unwrap();
			ids.push((t.id, slate_i.id, fin.tx_or_err()?.clone()));
			Ok(())
		})?;
	}
	println!("log ids: default {}, second {}", ids[0].0, ids[1].0);
	assert_eq!(ids[0].0, ids[1].0, "probe expects colliding log ids");

	// active account is "second": ask for the stored transaction of its entry
	wallet::controller::owner_single_use(Some(wallet1.clone()), mask1, None, |api, m| {
		let (_, txs) = api.retrieve_txs(m, false, Some(ids[1].0), None, None)?;
		assert_eq!(txs.len(), 1);
		assert_eq!(txs[0].tx_slate_id, Some(ids[1].1));
		let stored = api.get_stored_tx(m, Some(ids[1].0), None)?.unwrap();
		println!(
			"entry {} of account 'second' is slate {}, get_stored_tx returned slate {}",
			ids[1].0, ids[1].1, stored.id
		);
		assert_eq!(
			stored.tx_or_err()?,
			&ids[1].2,
			"stored tx returned for the entry is not the transaction that was finalized for it"
		);
		Ok(())
	})?;

	stopper.store(false, Ordering::Relaxed);
	thread::sleep(Duration::from_millis(200));
	Ok(())
}

#[test]
fn stored_tx_wrong_account() {
	let test_dir = "test_output/stored_tx_wrong_account";
	setup(test_dir);
	if let Err(e) = probe_impl(test_dir) {
		panic!("Libwallet Error: {}", e);
	}
	clean_output_dir(test_dir);
}
