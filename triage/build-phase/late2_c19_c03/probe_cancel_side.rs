// Probes for the UNCHANGED code (no seeded change applied).
// Intended location when run: controller/tests/cancel_side_probes.rs
// Every test asserts what the property "cancelling an unconfirmed transaction is an exact
// rollback" demands; a test that FAILS on the unchanged code therefore shows a violation.
#[macro_use]
extern crate log;
extern crate grin_wallet_controller as wallet;
extern crate grin_wallet_impls as impls;
extern crate grin_wallet_libwallet as libwallet;

use self::libwallet::{InitTxArgs, OutputStatus, Slate, TxLogEntryType, WalletInfo};
use impls::test_framework::{self, LocalWalletClient};
use std::sync::atomic::Ordering;
use std::thread;
use std::time::Duration;

mod common;
use common::{clean_output_dir, create_wallet_proxy, setup};

type OutputView = Vec<(String, OutputStatus, u64)>;
type Snapshot = (WalletInfo, OutputView, Vec<(u32, TxLogEntryType)>);

macro_rules! snapshot {
	($wallet:expr, $mask:expr, $label:expr) => {{
		let mut res: Option<Snapshot> = None;
		wallet::controller::owner_single_use(Some($wallet.clone()), $mask, None, |api, m| {
			let (refreshed, info) = api.retrieve_summary_info(m, true, 1)?;
			assert!(refreshed);
			let (_, outputs) = api.retrieve_outputs(m, false, false, None)?;
			let outputs: OutputView = outputs
				.iter()
				.map(|o| {
					(
						format!("{}", o.output.key_id),
						o.output.status.clone(),
						o.output.value,
					)
				})
				.collect();
			let (_, txs) = api.retrieve_txs(m, false, None, None, None)?;
			let txs = txs.iter().map(|t| (t.id, t.tx_type.clone())).collect();
			println!("--- {}: {:?}\n    {:?}\n    {:?}", $label, info, outputs, txs);
			res = Some((info, outputs, txs));
			Ok(())
		})?;
		res.unwrap()
	}};
}

/// O1: a send B that spends (minimum_confirmations = 0) the still unconfirmed change of the
/// pending send A. Cancelling B must put the change output back to Unconfirmed, cancelling A
/// afterwards must remove it.
fn zero_conf_chain(test_dir: &'static str) -> Result<(), libwallet::Error> {
	let mut wallet_proxy = create_wallet_proxy(test_dir);
	let chain = wallet_proxy.chain.clone();
	let stopper = wallet_proxy.running.clone();
	create_wallet_and_add!(
		client1,
		wallet1,
		mask1_i,
		test_dir,
		"wallet1",
		None,
		&mut wallet_proxy,
		false
	);
	let mask1 = (&mask1_i).as_ref();
	let _ = &client1;
	thread::spawn(move || {
		if let Err(e) = wallet_proxy.run() {
			error!("Wallet Proxy error: {}", e);
		}
	});
	let _ = test_framework::award_blocks_to_wallet(&chain, wallet1.clone(), mask1, 10, false);

	let s0 = snapshot!(wallet1, mask1, "O1 start");

	let mut slate_a = Slate::blank(2, false);
	wallet::controller::owner_single_use(Some(wallet1.clone()), mask1, None, |api, m| {
		let args = InitTxArgs {
			src_acct_name: None,
			amount: 30_000_000_000,
			minimum_confirmations: 2,
			max_outputs: 500,
			num_change_outputs: 1,
			selection_strategy_is_use_all: true,
			..Default::default()
		};
		slate_a = api.init_send_tx(m, args)?;
		api.tx_lock_outputs(m, &slate_a)?;
		Ok(())
	})?;
	let s1 = snapshot!(wallet1, mask1, "O1 send A pending");

	let mut slate_b = Slate::blank(2, false);
	wallet::controller::owner_single_use(Some(wallet1.clone()), mask1, None, |api, m| {
		let args = InitTxArgs {
			src_acct_name: None,
			amount: 10_000_000_000,
			minimum_confirmations: 0,
			max_outputs: 500,
			num_change_outputs: 1,
			selection_strategy_is_use_all: true,
			..Default::default()
		};
		slate_b = api.init_send_tx(m, args)?;
		api.tx_lock_outputs(m, &slate_b)?;
		Ok(())
	})?;
	let _ = snapshot!(wallet1, mask1, "O1 send B (spends A's change) pending");

	wallet::controller::owner_single_use(Some(wallet1.clone()), mask1, None, |api, m| {
		api.cancel_tx(m, None, Some(slate_b.id))?;
		Ok(())
	})?;
	let s2 = snapshot!(wallet1, mask1, "O1 send B cancelled");
	wallet::controller::owner_single_use(Some(wallet1.clone()), mask1, None, |api, m| {
		api.cancel_tx(m, None, Some(slate_a.id))?;
		Ok(())
	})?;
	let s3 = snapshot!(wallet1, mask1, "O1 send A cancelled");

	stopper.store(false, Ordering::Relaxed);
	thread::sleep(Duration::from_millis(200));

	assert_eq!(s2.0, s1.0, "O1: balance after cancelling B != balance before B");
	assert_eq!(s2.1, s1.1, "O1: outputs after cancelling B != outputs before B");
	assert_eq!(s3.0, s0.0, "O1: balance after cancelling B and A != start");
	assert_eq!(s3.1, s0.1, "O1: outputs after cancelling B and A != start");
	Ok(())
}

/// O2: a payment is received, cancelled by the recipient, delivered once more (the sender
/// retries) and received again. The second, pending entry must be cancellable by slate id.
fn receive_again_then_cancel_by_slate_id(test_dir: &'static str) -> Result<(), libwallet::Error> {
	let mut wallet_proxy = create_wallet_proxy(test_dir);
	let chain = wallet_proxy.chain.clone();
	let stopper = wallet_proxy.running.clone();
	create_wallet_and_add!(
		client1,
		wallet1,
		mask1_i,
		test_dir,
		"wallet1",
		None,
		&mut wallet_proxy,
		false
	);
	let mask1 = (&mask1_i).as_ref();
	create_wallet_and_add!(
		client2,
		wallet2,
		mask2_i,
		test_dir,
		"wallet2",
		None,
		&mut wallet_proxy,
		false
	);
	let mask2 = (&mask2_i).as_ref();
	let _ = (&client1, &client2);
	thread::spawn(move || {
		if let Err(e) = wallet_proxy.run() {
			error!("Wallet Proxy error: {}", e);
		}
	});
	let _ = test_framework::award_blocks_to_wallet(&chain, wallet1.clone(), mask1, 10, false);

	let s0 = snapshot!(wallet2, mask2, "O2 recipient start");
	let mut slate = Slate::blank(2, false);
	wallet::controller::owner_single_use(Some(wallet1.clone()), mask1, None, |api, m| {
		let args = InitTxArgs {
			src_acct_name: None,
			amount: 30_000_000_000,
			minimum_confirmations: 2,
			max_outputs: 500,
			num_change_outputs: 1,
			selection_strategy_is_use_all: true,
			..Default::default()
		};
		slate = api.init_send_tx(m, args)?;
		api.tx_lock_outputs(m, &slate)?;
		Ok(())
	})?;
	wallet::controller::foreign_single_use(wallet2.clone(), mask2_i.clone(), |api| {
		api.receive_tx(&slate, None, None)?;
		Ok(())
	})?;
	wallet::controller::owner_single_use(Some(wallet2.clone()), mask2, None, |api, m| {
		api.cancel_tx(m, None, Some(slate.id))?;
		Ok(())
	})?;
	let _ = snapshot!(wallet2, mask2, "O2 recipient: received, cancelled");
	// delivered and received again
	wallet::controller::foreign_single_use(wallet2.clone(), mask2_i.clone(), |api| {
		api.receive_tx(&slate, None, None)?;
		Ok(())
	})?;
	let _ = snapshot!(wallet2, mask2, "O2 recipient: received again");
	let mut res = Ok(());
	wallet::controller::owner_single_use(Some(wallet2.clone()), mask2, None, |api, m| {
		res = api.cancel_tx(m, None, Some(slate.id));
		Ok(())
	})?;
	println!("O2 cancel by slate id: {:?}", res);
	let s2 = snapshot!(wallet2, mask2, "O2 recipient: after cancel by slate id");

	stopper.store(false, Ordering::Relaxed);
	thread::sleep(Duration::from_millis(200));

	assert!(
		res.is_ok(),
		"O2: pending received transaction cannot be cancelled by slate id"
	);
	assert_eq!(s2.0, s0.0);
	assert_eq!(s2.1, s0.1);
	Ok(())
}

/// O3: the recipient spends the still unconfirmed incoming output (minimum_confirmations = 0)
/// and then cancels the receive: the incoming output must be gone.
fn cancel_receive_whose_output_is_respent(test_dir: &'static str) -> Result<(), libwallet::Error> {
	let mut wallet_proxy = create_wallet_proxy(test_dir);
	let chain = wallet_proxy.chain.clone();
	let stopper = wallet_proxy.running.clone();
	create_wallet_and_add!(
		client1,
		wallet1,
		mask1_i,
		test_dir,
		"wallet1",
		None,
		&mut wallet_proxy,
		false
	);
	let mask1 = (&mask1_i).as_ref();
	create_wallet_and_add!(
		client2,
		wallet2,
		mask2_i,
		test_dir,
		"wallet2",
		None,
		&mut wallet_proxy,
		false
	);
	let mask2 = (&mask2_i).as_ref();
	let _ = (&client1, &client2);
	thread::spawn(move || {
		if let Err(e) = wallet_proxy.run() {
			error!("Wallet Proxy error: {}", e);
		}
	});
	let _ = test_framework::award_blocks_to_wallet(&chain, wallet1.clone(), mask1, 10, false);

	let mut slate = Slate::blank(2, false);
	wallet::controller::owner_single_use(Some(wallet1.clone()), mask1, None, |api, m| {
		let args = InitTxArgs {
			src_acct_name: None,
			amount: 30_000_000_000,
			minimum_confirmations: 2,
			max_outputs: 500,
			num_change_outputs: 1,
			selection_strategy_is_use_all: true,
			..Default::default()
		};
		slate = api.init_send_tx(m, args)?;
		api.tx_lock_outputs(m, &slate)?;
		Ok(())
	})?;
	wallet::controller::foreign_single_use(wallet2.clone(), mask2_i.clone(), |api| {
		api.receive_tx(&slate, None, None)?;
		Ok(())
	})?;
	let _ = snapshot!(wallet2, mask2, "O3 recipient: received");
	// recipient passes the unconfirmed funds on
	let mut slate_s = Slate::blank(2, false);
	wallet::controller::owner_single_use(Some(wallet2.clone()), mask2, None, |api, m| {
		let args = InitTxArgs {
			src_acct_name: None,
			amount: 10_000_000_000,
			minimum_confirmations: 0,
			max_outputs: 500,
			num_change_outputs: 1,
			selection_strategy_is_use_all: true,
			..Default::default()
		};
		slate_s = api.init_send_tx(m, args)?;
		api.tx_lock_outputs(m, &slate_s)?;
		Ok(())
	})?;
	let _ = snapshot!(wallet2, mask2, "O3 recipient: passes it on (pending send S)");
	// and cancels the receive
	wallet::controller::owner_single_use(Some(wallet2.clone()), mask2, None, |api, m| {
		let (_, txs) = api.retrieve_txs(m, false, None, None, None)?;
		let rx = txs
			.iter()
			.find(|t| t.tx_type == TxLogEntryType::TxReceived)
			.unwrap();
		api.cancel_tx(m, Some(rx.id), None)?;
		Ok(())
	})?;
	let s2 = snapshot!(wallet2, mask2, "O3 recipient: receive cancelled");

	stopper.store(false, Ordering::Relaxed);
	thread::sleep(Duration::from_millis(200));

	assert!(
		!s2.1.iter().any(|o| o.2 == 30_000_000_000),
		"O3: the incoming output of the cancelled receive is still in the wallet: {:?}",
		s2.1
	);
	Ok(())
}

#[test]
fn o1_zero_conf_chain() {
	let test_dir = "test_output/cancel_probe_o1";
	setup(test_dir);
	if let Err(e) = zero_conf_chain(test_dir) {
		panic!("Libwallet Error: {}", e);
	}
	clean_output_dir(test_dir);
}

#[test]
fn o2_receive_again_then_cancel_by_slate_id() {
	let test_dir = "test_output/cancel_probe_o2";
	setup(test_dir);
	if let Err(e) = receive_again_then_cancel_by_slate_id(test_dir) {
		panic!("Libwallet Error: {}", e);
	}
	clean_output_dir(test_dir);
}

#[test]
fn o3_cancel_receive_whose_output_is_respent() {
	let test_dir = "test_output/cancel_probe_o3";
	setup(test_dir);
	if let Err(e) = cancel_receive_whose_output_is_respent(test_dir) {
		panic!("Libwallet Error: {}", e);
	}
	clean_output_dir(test_dir);
}
