// SUSPECT C: scan() reads a snapshot of all wallet outputs in one lock section
// and later, in separate lock sections, saves / deletes records taken from that
// snapshot.  Whatever another operation did to those records in between is
// overwritten / deleted.
//
// Deterministic interleaving, no source changes:
//  * HookClient (wrapper NodeClient) fires a closure at a chosen node call.
//  * HookInst (wrapper WalletInst) counts wallet-lock acquisitions
//    (`wallet_lock!` always calls WalletInst::lc_provider() right after taking the
//    mutex) and can run "the other operation" at the very start of a chosen lock
//    section of scan(), i.e. exactly as if another thread had held the wallet lock
//    immediately before that section.  The other operation is executed through the
//    same public api_impl functions (`owner::init_send_tx`, `owner::tx_lock_outputs`)
//    that the Owner API runs once it holds the lock.
#[macro_use]
extern crate log;
extern crate grin_wallet_controller as wallet;
extern crate grin_wallet_impls as impls;

use grin_core as core;
use grin_keychain as keychain;
use grin_util as util;

use grin_wallet_libwallet as libwallet;
use impls::test_framework::{self, LocalWalletClient, WalletProxy};
use impls::{DefaultLCProvider, DefaultWalletImpl};
use keychain::{ExtKeychain, Identifier};
use libwallet::api_impl::owner;
use libwallet::{
	InitTxArgs, NodeClient, NodeVersionInfo, OutputData, OutputStatus, Slate, TxLogEntry,
	TxLogEntryType, WalletBackend, WalletInst, WalletLCProvider,
};
use std::collections::HashMap;
use std::sync::atomic::Ordering;
use std::sync::{Arc, Mutex as StdMutex};
use std::thread;
use std::time::Duration;
use util::secp::key::SecretKey;
use util::secp::pedersen;
use util::{Mutex, ZeroingString};

#[macro_use]
mod common;
use common::{clean_output_dir, setup};

// ---------------------------------------------------------------------------
// test-only hook infrastructure
// ---------------------------------------------------------------------------

/// hook gets the name of the node-client method about to be executed; returns
/// true when it has fired (it is then dropped), false to stay armed
type Hook = Box<dyn FnMut(&str) -> bool + Send>;

#[derive(Clone)]
struct HookClient {
	inner: LocalWalletClient,
	hook: Arc<StdMutex<Option<Hook>>>,
}

impl HookClient {
	fn new(inner: LocalWalletClient) -> Self {
		HookClient {
			inner,
			hook: Arc::new(StdMutex::new(None)),
		}
	}
	fn set_hook(&self, h: Hook) {
		*self.hook.lock().unwrap() = Some(h);
	}
	fn fire(&self, method: &str) {
		// take the hook out, so that node calls made by the hook itself don't recurse
		let h = self.hook.lock().unwrap().take();
		if let Some(mut h) = h {
			let done = h(method);
			if !done {
				let mut g = self.hook.lock().unwrap();
				if g.is_none() {
					*g = Some(h);
				}
			}
		}
	}
}

impl NodeClient for HookClient {
	fn node_url(&self) -> &str {
		self.inner.node_url()
	}
	fn node_api_secret(&self) -> Option<String> {
		self.inner.node_api_secret()
	}
	fn set_node_url(&mut self, u: &str) {
		self.inner.set_node_url(u)
	}
	fn set_node_api_secret(&mut self, s: Option<String>) {
		self.inner.set_node_api_secret(s)
	}
	fn get_version_info(&mut self) -> Option<NodeVersionInfo> {
		self.inner.get_version_info()
	}
	fn post_tx(&self, tx: &core::core::Transaction, fluff: bool) -> Result<(), libwallet::Error> {
		self.fire("post_tx");
		self.inner.post_tx(tx, fluff)
	}
	fn get_chain_tip(&self) -> Result<(u64, String), libwallet::Error> {
		self.fire("get_chain_tip");
		self.inner.get_chain_tip()
	}
	fn get_outputs_from_node(
		&self,
		wallet_outputs: Vec<pedersen::Commitment>,
	) -> Result<HashMap<pedersen::Commitment, (String, u64, u64)>, libwallet::Error> {
		self.fire("get_outputs_from_node");
		self.inner.get_outputs_from_node(wallet_outputs)
	}
	fn get_kernel(
		&mut self,
		excess: &pedersen::Commitment,
		min_height: Option<u64>,
		max_height: Option<u64>,
	) -> Result<Option<(core::core::TxKernel, u64, u64)>, libwallet::Error> {
		self.fire("get_kernel");
		self.inner.get_kernel(excess, min_height, max_height)
	}
	fn get_outputs_by_pmmr_index(
		&self,
		start_index: u64,
		end_index: Option<u64>,
		max_outputs: u64,
	) -> Result<
		(
			u64,
			u64,
			Vec<(pedersen::Commitment, pedersen::RangeProof, bool, u64, u64)>,
		),
		libwallet::Error,
	> {
		self.fire("get_outputs_by_pmmr_index");
		self.inner
			.get_outputs_by_pmmr_index(start_index, end_index, max_outputs)
	}
	fn height_range_to_pmmr_indices(
		&self,
		start_height: u64,
		end_height: Option<u64>,
	) -> Result<(u64, u64), libwallet::Error> {
		self.fire("height_range_to_pmmr_indices");
		self.inner
			.height_range_to_pmmr_indices(start_height, end_height)
	}
}

type HookLC = DefaultLCProvider<'static, HookClient, ExtKeychain>;
type HookWallet = Arc<Mutex<Box<dyn WalletInst<'static, HookLC, HookClient, ExtKeychain>>>>;
type Backend = Box<dyn WalletBackend<'static, HookClient, ExtKeychain> + 'static>;
type LockOp = Box<dyn FnMut(&mut Backend) + Send>;

/// countdown: number of wallet-lock acquisitions to let pass before `op` is run at
/// the start of the next one
struct LockCtl {
	countdown: Option<usize>,
	op: Option<LockOp>,
}

struct HookInst {
	inner: DefaultWalletImpl<'static, HookClient>,
	ctl: Arc<StdMutex<LockCtl>>,
}

impl WalletInst<'static, HookLC, HookClient, ExtKeychain> for HookInst {
	fn lc_provider(
		&mut self,
	) -> Result<
		&mut (dyn WalletLCProvider<'static, HookClient, ExtKeychain> + 'static),
		libwallet::Error,
	> {
		let op = {
			let mut c = self.ctl.lock().unwrap();
			match c.countdown {
				Some(0) => {
					c.countdown = None;
					c.op.take()
				}
				Some(n) => {
					c.countdown = Some(n - 1);
					None
				}
				None => None,
			}
		};
		let lc = <DefaultWalletImpl<'static, HookClient> as WalletInst<
			'static,
			HookLC,
			HookClient,
			ExtKeychain,
		>>::lc_provider(&mut self.inner)?;
		if let Some(mut op) = op {
			let w = lc.wallet_inst()?;
			op(w);
		}
		Ok(lc)
	}
}

fn create_hook_wallet(
	test_dir: &str,
	name: &str,
	client: HookClient,
	ctl: Arc<StdMutex<LockCtl>>,
) -> (HookWallet, Option<SecretKey>) {
	let inst = HookInst {
		inner: DefaultWalletImpl::<HookClient>::new(client).unwrap(),
		ctl,
	};
	let mut wallet =
		Box::new(inst) as Box<dyn WalletInst<'static, HookLC, HookClient, ExtKeychain>>;
	let lc = wallet.lc_provider().unwrap();
	let _ = lc.set_top_level_directory(&format!("{}/{}", test_dir, name));
	lc.create_wallet(None, None, 32, ZeroingString::from(""), false)
		.unwrap();
	let mask = lc
		.open_wallet(None, ZeroingString::from(""), true, false)
		.unwrap();
	(Arc::new(Mutex::new(wallet)), mask)
}

fn short(c: &Option<String>) -> String {
	match c {
		Some(s) => s[..10].to_owned(),
		None => "-".to_owned(),
	}
}

fn fmt_out(o: &OutputData) -> String {
	format!(
		"n_child={} commit={} value={} status={:?} height={} tx_log_entry={:?}",
		o.n_child,
		short(&o.commit),
		o.value,
		o.status,
		o.height,
		o.tx_log_entry
	)
}

fn fmt_entry(t: &TxLogEntry) -> String {
	format!(
		"id={} type={:?} confirmed={} debited={} credited={} n_in={} n_out={}",
		t.id, t.tx_type, t.confirmed, t.amount_debited, t.amount_credited, t.num_inputs, t.num_outputs
	)
}

/// dump non-coinbase log entries and the outputs of interest straight from the backend
fn dump(tag: &str, w: &Backend, keys: &[(&str, Identifier)]) {
	for (name, k) in keys {
		match w.iter().find(|o| o.key_id == *k) {
			Some(o) => println!("{}:   output {} : {}", tag, name, fmt_out(&o)),
			None => println!("{}:   output {} : <NO RECORD IN WALLET>", tag, name),
		}
	}
	for t in w.tx_log_iter() {
		if t.tx_type != TxLogEntryType::ConfirmedCoinbase {
			println!("{}:   log entry  : {}", tag, fmt_entry(&t));
		}
	}
}

fn dump_wallet(tag: &str, wallet: &HookWallet, keys: &[(&str, Identifier)]) {
	let mut w_lock = wallet.lock();
	let lc = w_lock.lc_provider().unwrap();
	let w = lc.wallet_inst().unwrap();
	dump(tag, w, keys);
}

fn seed_c_impl(test_dir: &'static str, interleave: bool) -> Result<(), libwallet::Error> {
	let tag = if interleave { "C" } else { "C-control" };
	let mut wallet_proxy: WalletProxy<HookLC, HookClient, ExtKeychain> = WalletProxy::new(test_dir);
	let chain = wallet_proxy.chain.clone();
	let stopper = wallet_proxy.running.clone();

	let ctl1 = Arc::new(StdMutex::new(LockCtl {
		countdown: None,
		op: None,
	}));
	let ctl2 = Arc::new(StdMutex::new(LockCtl {
		countdown: None,
		op: None,
	}));
	let client1 = HookClient::new(LocalWalletClient::new("wallet1", wallet_proxy.tx.clone()));
	let (wallet1, mask1_i) = create_hook_wallet(test_dir, "wallet1", client1.clone(), ctl1.clone());
	wallet_proxy.add_wallet(
		"wallet1",
		client1.inner.get_send_instance(),
		wallet1.clone(),
		mask1_i.clone(),
	);
	let client2 = HookClient::new(LocalWalletClient::new("wallet2", wallet_proxy.tx.clone()));
	let (wallet2, mask2_i) = create_hook_wallet(test_dir, "wallet2", client2.clone(), ctl2);
	wallet_proxy.add_wallet(
		"wallet2",
		client2.inner.get_send_instance(),
		wallet2.clone(),
		mask2_i.clone(),
	);
	thread::spawn(move || {
		if let Err(e) = wallet_proxy.run() {
			error!("Wallet Proxy error: {}", e);
		}
	});
	let mask1 = (&mask1_i).as_ref();
	let reward = core::consensus::REWARD;

	test_framework::award_blocks_to_wallet(&chain, wallet1.clone(), mask1, 5, false)?;

	// ---- tx A: wallet1 -> wallet2, 20 grin out of one 60 grin coinbase X, change U.
	// Fully built and finalized; NOT yet in a block ("sitting in the mempool").
	let mut slate_a = Slate::blank(2, false);
	let mut a_id = 0u32;
	wallet::controller::owner_single_use(Some(wallet1.clone()), mask1, None, |api, m| {
		let args = InitTxArgs {
			src_acct_name: None,
			amount: reward / 3,
			minimum_confirmations: 2,
			max_outputs: 500,
			num_change_outputs: 1,
			selection_strategy_is_use_all: false,
			..Default::default()
		};
		slate_a = api.init_send_tx(m, args)?;
		slate_a = client1.inner.send_tx_slate_direct("wallet2", &slate_a)?;
		api.tx_lock_outputs(m, &slate_a)?;
		slate_a = api.finalize_tx(m, &slate_a)?;
		let (_, txs) = api.retrieve_txs(m, false, None, Some(slate_a.id), None)?;
		a_id = txs[0].id;
		Ok(())
	})?;
	let tx_a = slate_a.tx.clone().unwrap();
	let (x_key, u_key) = {
		let mut w_lock = wallet1.lock();
		let lc = w_lock.lc_provider()?;
		let w = lc.wallet_inst()?;
		let x = w
			.iter()
			.find(|o| o.tx_log_entry == Some(a_id) && o.status == OutputStatus::Locked)
			.unwrap();
		let u = w
			.iter()
			.find(|o| o.tx_log_entry == Some(a_id) && o.status == OutputStatus::Unconfirmed)
			.unwrap();
		(x.key_id.clone(), u.key_id.clone())
	};
	let keys = vec![("X (input of A)", x_key.clone()), ("U (change of A)", u_key.clone())];
	println!("{}: state after tx A (id {}) was built and finalized, not yet mined:", tag, a_id);
	dump_wallet(tag, &wallet1, &keys);

	// ---- the chain event + the other wallet operation
	//  (1) a block containing tx A is mined (reward to wallet2)
	//  (2) send B on wallet1: owner::init_send_tx (which refreshes outputs from the node
	//      first, as every send does) + owner::tx_lock_outputs
	let b_slate_id = Arc::new(StdMutex::new(None));
	let mut other_op: LockOp = {
		let chain = chain.clone();
		let wallet2 = wallet2.clone();
		let mask2_i = mask2_i.clone();
		let mask1_i = mask1_i.clone();
		let tx_a = tx_a.clone();
		let keys: Vec<(&'static str, Identifier)> = vec![
			("X (input of A)", x_key.clone()),
			("U (change of A)", u_key.clone()),
		];
		let tag = tag.to_owned();
		let b_slate_id = b_slate_id.clone();
		Box::new(move |w: &mut Backend| {
			test_framework::award_block_to_wallet(
				&chain,
				&[tx_a.clone()],
				wallet2.clone(),
				(&mask2_i).as_ref(),
			)
			.unwrap();
			println!("{}:   (block {} mined, contains tx A)", tag, chain.head().unwrap().height);
			let args = InitTxArgs {
				src_acct_name: None,
				amount: reward / 6,
				minimum_confirmations: 1,
				max_outputs: 500,
				num_change_outputs: 1,
				selection_strategy_is_use_all: false,
				..Default::default()
			};
			let slate_b = owner::init_send_tx(&mut **w, (&mask1_i).as_ref(), args, false).unwrap();
			owner::tx_lock_outputs(&mut **w, (&mask1_i).as_ref(), &slate_b).unwrap();
			*b_slate_id.lock().unwrap() = Some(slate_b.id);
			println!("{}:   other op (send B: init_send_tx + tx_lock_outputs) done; state now:", tag);
			dump(&tag, w, &keys);
		})
	};

	if interleave {
		// arm: at scan's last node call before it reads its snapshot
		// (get_outputs_by_pmmr_index in collect_chain_outputs), let ONE more lock
		// section pass (= `let wallet_outputs = {..}` snapshot) and run the other op at
		// the start of the following lock section (first repair section).
		{
			let mut c = ctl1.lock().unwrap();
			c.op = Some(Box::new(move |w: &mut Backend| {
				println!(
					">>> scan has read its snapshot and is entering its first repair lock section; other operation ran just before:"
				);
				other_op(w);
				println!("<<< scan resumes");
			}));
		}
		let ctl = ctl1.clone();
		client1.set_hook(Box::new(move |method| {
			if method != "get_outputs_by_pmmr_index" {
				return false;
			}
			ctl.lock().unwrap().countdown = Some(1);
			true
		}));
	} else {
		// control: same event + operation, but strictly before the scan
		let mut w_lock = wallet1.lock();
		let lc = w_lock.lc_provider()?;
		let w = lc.wallet_inst()?;
		other_op(w);
	}

	// ---- the scan (Owner API, delete_unconfirmed = true, full range)
	wallet::controller::owner_single_use(Some(wallet1.clone()), mask1, None, |api, m| {
		println!("{}: calling Owner::scan(start_height=1, delete_unconfirmed=true)", tag);
		api.scan(m, Some(1), true)?;
		Ok(())
	})?;
	println!("{}: state after scan returned (no refresh):", tag);
	dump_wallet(tag, &wallet1, &keys);

	let b_slate_id = b_slate_id.lock().unwrap().unwrap();
	let (x_after, u_after, a_after, b_after) = {
		let mut w_lock = wallet1.lock();
		let lc = w_lock.lc_provider()?;
		let w = lc.wallet_inst()?;
		let x = w.iter().find(|o| o.key_id == x_key);
		let u = w.iter().find(|o| o.key_id == u_key);
		let a = w.tx_log_iter().find(|t| t.id == a_id).unwrap();
		let b = w
			.tx_log_iter()
			.find(|t| t.tx_slate_id == Some(b_slate_id))
			.unwrap();
		(x, u, a, b)
	};
	let x_on_chain = chain
		.get_unspent(pedersen::Commitment::from_vec(
			util::from_hex(x_after.as_ref().unwrap().commit.as_ref().unwrap()).unwrap(),
		))
		.unwrap()
		.is_some();
	println!("{}: X in node UTXO set: {}", tag, x_on_chain);
	assert!(!x_on_chain);

	wallet::controller::owner_single_use(Some(wallet1.clone()), mask1, None, |api, m| {
		let (_, info) = api.retrieve_summary_info(m, false, 1)?;
		println!(
			"{}: summary (no refresh): total={} spendable={} awaiting_conf={} locked={}",
			tag,
			info.total,
			info.amount_currently_spendable,
			info.amount_awaiting_confirmation,
			info.amount_locked
		);
		let (_, info) = api.retrieve_summary_info(m, true, 1)?;
		println!(
			"{}: summary (refreshed) : total={} spendable={} awaiting_conf={} locked={}",
			tag,
			info.total,
			info.amount_currently_spendable,
			info.amount_awaiting_confirmation,
			info.amount_locked
		);
		Ok(())
	})?;
	println!("{}: state after a further refresh:", tag);
	dump_wallet(tag, &wallet1, &keys);

	if interleave {
		// stale snapshot copy of X (Locked->"Unspent") written over the Spent record
		assert_eq!(x_after.unwrap().status, OutputStatus::Unspent);
		// confirmed change output U, meanwhile locked as input of live send B, deleted
		assert!(u_after.is_none());
		// A is on chain and confirmed, yet marked cancelled
		assert_eq!(a_after.tx_type, TxLogEntryType::TxSentCancelled);
		assert!(a_after.confirmed);
		// B is still a live TxSent whose input record no longer exists
		assert_eq!(b_after.tx_type, TxLogEntryType::TxSent);
		// and an ordinary refresh does not heal X: it is only re-checked against the node
		// when its log entry is unconfirmed (update_all = false), so the wallet keeps
		// counting an output that is spent on chain
		let x_final = {
			let mut w_lock = wallet1.lock();
			let lc = w_lock.lc_provider()?;
			let w = lc.wallet_inst()?;
			let x = w.iter().find(|o| o.key_id == x_key).unwrap();
			x
		};
		assert_eq!(x_final.status, OutputStatus::Unspent);
		println!(
			"{}: after refresh X (spent on chain) is still {:?}: balance overstated by {}",
			tag, x_final.status, x_final.value
		);
		println!("{}: CONFIRMED - scan wrote/deleted records from its stale snapshot", tag);
	} else {
		assert_eq!(x_after.unwrap().status, OutputStatus::Spent);
		assert!(u_after.is_some());
		assert_eq!(a_after.tx_type, TxLogEntryType::TxSent);
		assert!(a_after.confirmed);
	}

	stopper.store(false, Ordering::Relaxed);
	thread::sleep(Duration::from_millis(300));
	Ok(())
}

#[test]
fn seed_c_scan_stale_snapshot() {
	let test_dir = "test_output/seed_c";
	setup(test_dir);
	if let Err(e) = seed_c_impl(test_dir, true) {
		panic!("Libwallet Error: {}", e);
	}
	clean_output_dir(test_dir);
}

#[test]
fn seed_c_control_sequential() {
	let test_dir = "test_output/seed_c_control";
	setup(test_dir);
	if let Err(e) = seed_c_impl(test_dir, false) {
		panic!("Libwallet Error: {}", e);
	}
	clean_output_dir(test_dir);
}
