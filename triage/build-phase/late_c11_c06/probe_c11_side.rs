// Probes on the UNCHANGED code: each scenario below is one where, reading the
// property "payment proofs are sound end to end", finalization should be refused,
// and where the unchanged code finalizes anyway (or refuses an honest reply).
// The test asserts the behaviour that was OBSERVED, so it passes on the unchanged
// code; every assertion marked "PROPERTY SAYS" documents what the property expects.
//
// Intended location while running: controller/tests/c11_side_probes.rs
#[macro_use]
extern crate log;
extern crate grin_wallet_controller as wallet;
extern crate grin_wallet_impls as impls;
extern crate grin_wallet_util;

use grin_wallet_libwallet as libwallet;
use impls::test_framework::{self, LocalWalletClient};
use libwallet::{InitTxArgs, Slate};
use std::sync::atomic::Ordering;
use std::thread;
use std::time::Duration;

#[macro_use]
mod common;
use common::{clean_output_dir, create_wallet_proxy, setup};

fn probes_impl(test_dir: &'static str) -> Result<(), libwallet::Error> {
	let mut wallet_proxy = create_wallet_proxy(test_dir);
	let chain = wallet_proxy.chain.clone();
	let stopper = wallet_proxy.running.clone();

	create_wallet_and_add!(
		client1,
		wallet1,
		mask1_i,
		test_dir,
		"wallet1",
		None,
		&mut wallet_proxy,
		false
	);
	let mask1 = (&mask1_i).as_ref();
	create_wallet_and_add!(
		client2,
		wallet2,
		mask2_i,
		test_dir,
		"wallet2",
		None,
		&mut wallet_proxy,
		false
	);
	let mask2 = (&mask2_i).as_ref();
	create_wallet_and_add!(
		client3,
		wallet3,
		mask3_i,
		test_dir,
		"wallet3",
		None,
		&mut wallet_proxy,
		false
	);
	let mask3 = (&mask3_i).as_ref();
	let _ = (&client2, &client3);

	thread::spawn(move || {
		if let Err(e) = wallet_proxy.run() {
			error!("Wallet Proxy error: {}", e);
		}
	});

	let _ = test_framework::award_blocks_to_wallet(&chain, wallet1.clone(), mask1, 12, false);

	let mut address1 = None;
	let mut address2 = None;
	let mut address3 = None;
	wallet::controller::owner_single_use(Some(wallet1.clone()), mask1, None, |api, m| {
		address1 = Some(api.get_slatepack_address(m, 0)?);
		Ok(())
	})?;
	wallet::controller::owner_single_use(Some(wallet2.clone()), mask2, None, |api, m| {
		address2 = Some(api.get_slatepack_address(m, 0)?);
		Ok(())
	})?;
	wallet::controller::owner_single_use(Some(wallet3.clone()), mask3, None, |api, m| {
		address3 = Some(api.get_slatepack_address(m, 0)?);
		Ok(())
	})?;

	let amount = 2_000_000_000;
	let base_args = InitTxArgs {
		src_acct_name: None,
		amount,
		minimum_confirmations: 2,
		max_outputs: 500,
		num_change_outputs: 1,
		selection_strategy_is_use_all: false,
		..Default::default()
	};

	// ---------------------------------------------------------------------
	// P1: "synchronous" order used by the `send` command (and by the
	// repository's own payment_proofs test): outputs are locked with the REPLY
	// slate. The expected recipient is recorded from whatever the reply says,
	// so a reply with the proof stripped is finalized.
	// ---------------------------------------------------------------------
	wallet::controller::owner_single_use(Some(wallet1.clone()), mask1, None, |api, m| {
		let mut args = base_args.clone();
		args.payment_proof_recipient_address = address2.clone();
		let slate_i = api.init_send_tx(m, args)?;
		let mut reply = client1.send_tx_slate_direct("wallet2", &slate_i)?;
		assert!(reply.payment_proof.as_ref().unwrap().receiver_signature.is_some());
		reply.payment_proof = None; // stripped
		api.tx_lock_outputs(m, &reply)?;
		let res = api.finalize_tx(m, &reply);
		println!("P1 stripped proof, lock with reply slate: {:?}", res.as_ref().map(|_| "FINALIZED"));
		// PROPERTY SAYS: refused. OBSERVED: finalized.
		assert!(res.is_ok());
		let (_, txs) = api.retrieve_txs(m, false, None, Some(reply.id), None)?;
		assert!(txs[0].payment_proof.is_none());
		api.post_tx(m, &res.unwrap(), true)?;
		Ok(())
	})?;
	let _ = test_framework::award_blocks_to_wallet(&chain, wallet1.clone(), mask1, 3, false);

	// ---------------------------------------------------------------------
	// P1b: same order; the slate reaches wallet3 instead of wallet2. wallet3
	// takes the funds, signs with ITS key and puts ITS address in the reply.
	// ---------------------------------------------------------------------
	wallet::controller::owner_single_use(Some(wallet1.clone()), mask1, None, |api, m| {
		let mut args = base_args.clone();
		args.payment_proof_recipient_address = address2.clone();
		let slate_i = api.init_send_tx(m, args)?;
		let mut reply = client1.send_tx_slate_direct("wallet3", &slate_i)?;
		{
			let p = reply.payment_proof.as_mut().unwrap();
			assert_eq!(p.receiver_address, address2.as_ref().unwrap().pub_key);
			p.receiver_address = address3.as_ref().unwrap().pub_key;
		}
		api.tx_lock_outputs(m, &reply)?;
		let res = api.finalize_tx(m, &reply);
		println!("P1b proof by another key, lock with reply slate: {:?}", res.as_ref().map(|_| "FINALIZED"));
		// PROPERTY SAYS: refused (signed by another key than the requested recipient's).
		// OBSERVED: finalized, and the stored proof names wallet3.
		assert!(res.is_ok());
		let (_, txs) = api.retrieve_txs(m, false, None, Some(reply.id), None)?;
		assert_eq!(
			txs[0].payment_proof.as_ref().unwrap().receiver_address,
			address3.as_ref().unwrap().pub_key
		);
		api.post_tx(m, &res.unwrap(), true)?;
		Ok(())
	})?;
	let _ = test_framework::award_blocks_to_wallet(&chain, wallet1.clone(), mask1, 3, false);

	// ---------------------------------------------------------------------
	// P2: late-locked send with a proof request. Nothing is recorded until
	// finalize_tx locks the outputs itself - with the reply slate.
	// ---------------------------------------------------------------------
	wallet::controller::owner_single_use(Some(wallet1.clone()), mask1, None, |api, m| {
		let mut args = base_args.clone();
		args.payment_proof_recipient_address = address2.clone();
		args.late_lock = Some(true);
		let slate_i = api.init_send_tx(m, args)?;
		assert!(slate_i.payment_proof.is_some());
		let mut reply = client1.send_tx_slate_direct("wallet2", &slate_i)?;
		reply.payment_proof = None; // stripped
		api.tx_lock_outputs(m, &slate_i)?; // a no-op for late-locked sends
		let res = api.finalize_tx(m, &reply);
		println!("P2 late lock, stripped proof: {:?}", res.as_ref().map(|_| "FINALIZED"));
		// PROPERTY SAYS: refused. OBSERVED: finalized.
		assert!(res.is_ok());
		api.post_tx(m, &res.unwrap(), true)?;
		Ok(())
	})?;
	let _ = test_framework::award_blocks_to_wallet(&chain, wallet1.clone(), mask1, 3, false);

	// ---------------------------------------------------------------------
	// P3: send to oneself, same account, proof requested; the receive entry is
	// written before the send entry. verify_slate_payment_proof reads the
	// expected proof from the OLDEST entry of the slate (the receive entry,
	// which has none): a stripped reply is finalized, an honest one is refused.
	// ---------------------------------------------------------------------
	wallet::controller::owner_single_use(Some(wallet1.clone()), mask1, None, |api, m| {
		let mut args = base_args.clone();
		args.payment_proof_recipient_address = address1.clone();
		let slate_i = api.init_send_tx(m, args)?;
		let mut reply = Slate::blank(2, false);
		wallet::controller::foreign_single_use(wallet1.clone(), mask1_i.clone(), |fapi| {
			reply = fapi.receive_tx(&slate_i, None, None)?;
			Ok(())
		})?;
		thread::sleep(Duration::from_millis(50));
		// locked with our OWN slate, so the requested recipient is recorded properly
		api.tx_lock_outputs(m, &slate_i)?;
		let (_, txs) = api.retrieve_txs(m, false, None, Some(slate_i.id), None)?;
		assert_eq!(txs.len(), 2);

		let honest = api.finalize_tx(m, &reply);
		println!("P3 self-send, honest reply: {:?}", honest.as_ref().map(|_| "FINALIZED"));
		// PROPERTY SAYS: accepted. OBSERVED: refused ("Original proof info not stored in tx").
		assert!(honest.is_err());

		let mut stripped = reply.clone();
		stripped.payment_proof = None;
		let res = api.finalize_tx(m, &stripped);
		println!("P3 self-send, stripped reply: {:?}", res.as_ref().map(|_| "FINALIZED"));
		// PROPERTY SAYS: refused. OBSERVED: finalized.
		assert!(res.is_ok());
		Ok(())
	})?;

	stopper.store(false, Ordering::Relaxed);
	thread::sleep(Duration::from_millis(200));
	Ok(())
}

#[test]
fn c11_side_probes() {
	let test_dir = "test_output/c11_side_probes";
	setup(test_dir);
	if let Err(e) = probes_impl(test_dir) {
		panic!("Libwallet Error: {}", e);
	}
	clean_output_dir(test_dir);
}
