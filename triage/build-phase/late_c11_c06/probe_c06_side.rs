// Copyright 2021 The Grin Developers
// Licensed under the Apache License, Version 2.0 (the "License");
// you may not use this file except in compliance with the License.
// You may obtain a copy of the License at
//
//     http://www.apache.org/licenses/LICENSE-2.0
//
// Unless required by applicable law or agreed to in writing, software
// distributed under the License is distributed on an "AS IS" BASIS,
// WITHOUT WARRANTIES OR CONDITIONS OF ANY KIND, either express or implied.
// See the License for the specific language governing permissions and
// limitations under the License.

//! Probes of the UNCHANGED code (side observations, not the demonstration of the seeded
//! change). Each test asserts the crash-consistency property and is expected to FAIL on
//! the unchanged tree, printing what it found. Intended location: controller/tests/.
extern crate grin_wallet_controller as wallet;
extern crate grin_wallet_impls as impls;

use grin_core as core;
use grin_keychain as keychain;
use grin_util as util;
use grin_wallet_config as config;
use grin_wallet_libwallet as libwallet;

use self::core::core::Transaction;
use self::core::global;
use self::keychain::{ExtKeychain, Identifier, Keychain};
use impls::test_framework::{self, LocalWalletClient};
use impls::LMDBBackend;
use libwallet::{
	InitTxArgs, OutputStatus, TxLogEntryType, AcctPathMapping, Context, Error, OutputData, ScannedBlockInfo, TxLogEntry, WalletBackend,
	WalletInitStatus, WalletInst, WalletLCProvider, WalletOutputBatch,
};
use std::sync::atomic::{AtomicBool, AtomicUsize, Ordering};
use std::sync::Arc;
use std::thread;
use std::time::Duration;
use util::secp::key::SecretKey;
use util::{Mutex, ZeroingString};
use uuid::Uuid;

#[macro_use]
mod common;
use common::{clean_output_dir, create_wallet_proxy, setup};

type C = LocalWalletClient;
type K = ExtKeychain;

/// Which batches count towards the simulated process death
#[derive(Clone, Copy, PartialEq)]
enum Kind {
	/// batches that save a transaction log entry
	SavesTxLogEntry,
	/// batches that lock an output
	LocksOutput,
}

/// What the simulated process death is tied to: the process dies at the commit of the
/// `countdown`-th batch of the given kind
struct Crash {
	armed: AtomicBool,
	kind: Kind,
	countdown: AtomicUsize,
	/// the process is dead: nothing is written any more
	dead: AtomicBool,
}

fn dead_err() -> Error {
	Error::GenericError("simulated crash: the process is gone".to_owned())
}

struct CrashBatch<'a> {
	inner: Box<dyn WalletOutputBatch<K> + 'a>,
	crash: Arc<Crash>,
	saves_entry: bool,
	locks_output: bool,
}

impl<'a> WalletOutputBatch<K> for CrashBatch<'a> {
	fn keychain(&mut self) -> &mut K {
		self.inner.keychain()
	}
	fn save(&mut self, out: OutputData) -> Result<(), Error> {
		self.inner.save(out)
	}
	fn get(&self, id: &Identifier, mmr_index: &Option<u64>) -> Result<OutputData, Error> {
		self.inner.get(id, mmr_index)
	}
	fn iter(&self) -> Box<dyn Iterator<Item = OutputData>> {
		self.inner.iter()
	}
	fn delete(&mut self, id: &Identifier, mmr_index: &Option<u64>) -> Result<(), Error> {
		self.inner.delete(id, mmr_index)
	}
	fn save_child_index(&mut self, parent_key_id: &Identifier, child_n: u32) -> Result<(), Error> {
		self.inner.save_child_index(parent_key_id, child_n)
	}
	fn save_last_confirmed_height(
		&mut self,
		parent_key_id: &Identifier,
		height: u64,
	) -> Result<(), Error> {
		self.inner.save_last_confirmed_height(parent_key_id, height)
	}
	fn save_last_scanned_block(&mut self, block: ScannedBlockInfo) -> Result<(), Error> {
		self.inner.save_last_scanned_block(block)
	}
	fn save_init_status(&mut self, value: WalletInitStatus) -> Result<(), Error> {
		self.inner.save_init_status(value)
	}
	fn next_tx_log_id(&mut self, parent_key_id: &Identifier) -> Result<u32, Error> {
		self.inner.next_tx_log_id(parent_key_id)
	}
	fn tx_log_iter(&self) -> Box<dyn Iterator<Item = TxLogEntry>> {
		self.inner.tx_log_iter()
	}
	fn save_tx_log_entry(&mut self, t: TxLogEntry, parent_id: &Identifier) -> Result<(), Error> {
		self.saves_entry = true;
		self.inner.save_tx_log_entry(t, parent_id)
	}
	fn save_acct_path(&mut self, mapping: AcctPathMapping) -> Result<(), Error> {
		self.inner.save_acct_path(mapping)
	}
	fn acct_path_iter(&self) -> Box<dyn Iterator<Item = AcctPathMapping>> {
		self.inner.acct_path_iter()
	}
	fn lock_output(&mut self, out: &mut OutputData) -> Result<(), Error> {
		self.locks_output = true;
		self.inner.lock_output(out)
	}
	fn save_private_context(&mut self, slate_id: &[u8], ctx: &Context) -> Result<(), Error> {
		self.inner.save_private_context(slate_id, ctx)
	}
	fn delete_private_context(&mut self, slate_id: &[u8]) -> Result<(), Error> {
		self.inner.delete_private_context(slate_id)
	}
	fn commit(&self) -> Result<(), Error> {
		let counts = match self.crash.kind {
			Kind::SavesTxLogEntry => self.saves_entry,
			Kind::LocksOutput => self.locks_output,
		};
		if counts && self.crash.armed.load(Ordering::SeqCst) {
			if self.crash.countdown.fetch_sub(1, Ordering::SeqCst) == 1 {
				self.crash.dead.store(true, Ordering::SeqCst);
			}
		}
		if self.crash.dead.load(Ordering::SeqCst) {
			// the LMDB transaction is dropped uncommitted, as it is when the process dies
			return Err(dead_err());
		}
		self.inner.commit()
	}
}

struct CrashBackend {
	inner: LMDBBackend<'static, C, K>,
	crash: Arc<Crash>,
}

impl WalletBackend<'static, C, K> for CrashBackend {
	fn set_keychain(
		&mut self,
		k: Box<K>,
		mask: bool,
		use_test_rng: bool,
	) -> Result<Option<SecretKey>, Error> {
		self.inner.set_keychain(k, mask, use_test_rng)
	}
	fn close(&mut self) -> Result<(), Error> {
		self.inner.close()
	}
	fn keychain(&self, mask: Option<&SecretKey>) -> Result<K, Error> {
		self.inner.keychain(mask)
	}
	fn w2n_client(&mut self) -> &mut C {
		self.inner.w2n_client()
	}
	fn calc_commit_for_cache(
		&mut self,
		keychain_mask: Option<&SecretKey>,
		amount: u64,
		id: &Identifier,
	) -> Result<Option<String>, Error> {
		self.inner.calc_commit_for_cache(keychain_mask, amount, id)
	}
	fn set_parent_key_id_by_name(&mut self, label: &str) -> Result<(), Error> {
		self.inner.set_parent_key_id_by_name(label)
	}
	fn set_parent_key_id(&mut self, id: Identifier) {
		self.inner.set_parent_key_id(id)
	}
	fn parent_key_id(&mut self) -> Identifier {
		self.inner.parent_key_id()
	}
	fn iter<'a>(&'a self) -> Box<dyn Iterator<Item = OutputData> + 'a> {
		self.inner.iter()
	}
	fn get(&self, id: &Identifier, mmr_index: &Option<u64>) -> Result<OutputData, Error> {
		self.inner.get(id, mmr_index)
	}
	fn get_tx_log_entry(&self, uuid: &Uuid) -> Result<Option<TxLogEntry>, Error> {
		self.inner.get_tx_log_entry(uuid)
	}
	fn get_private_context(
		&mut self,
		keychain_mask: Option<&SecretKey>,
		slate_id: &[u8],
	) -> Result<Context, Error> {
		self.inner.get_private_context(keychain_mask, slate_id)
	}
	fn tx_log_iter<'a>(&'a self) -> Box<dyn Iterator<Item = TxLogEntry> + 'a> {
		self.inner.tx_log_iter()
	}
	fn acct_path_iter<'a>(&'a self) -> Box<dyn Iterator<Item = AcctPathMapping> + 'a> {
		self.inner.acct_path_iter()
	}
	fn get_acct_path(&self, label: String) -> Result<Option<AcctPathMapping>, Error> {
		self.inner.get_acct_path(label)
	}
	fn store_tx(&self, uuid: &str, tx: &Transaction) -> Result<(), Error> {
		if self.crash.dead.load(Ordering::SeqCst) {
			return Err(dead_err());
		}
		self.inner.store_tx(uuid, tx)
	}
	fn get_stored_tx(&self, uuid: &str) -> Result<Option<Transaction>, Error> {
		self.inner.get_stored_tx(uuid)
	}
	fn batch<'a>(
		&'a mut self,
		keychain_mask: Option<&SecretKey>,
	) -> Result<Box<dyn WalletOutputBatch<K> + 'a>, Error> {
		let crash = self.crash.clone();
		let inner = self.inner.batch(keychain_mask)?;
		Ok(Box::new(CrashBatch {
			inner,
			crash,
			saves_entry: false,
			locks_output: false,
		}))
	}
	fn batch_no_mask<'a>(&'a mut self) -> Result<Box<dyn WalletOutputBatch<K> + 'a>, Error> {
		let crash = self.crash.clone();
		let inner = self.inner.batch_no_mask()?;
		Ok(Box::new(CrashBatch {
			inner,
			crash,
			saves_entry: false,
			locks_output: false,
		}))
	}
	fn current_child_index(&mut self, parent_key_id: &Identifier) -> Result<u32, Error> {
		self.inner.current_child_index(parent_key_id)
	}
	fn next_child(
		&mut self,
		keychain_mask: Option<&SecretKey>,
		parent_key_id: &Identifier,
	) -> Result<Identifier, Error> {
		if self.crash.dead.load(Ordering::SeqCst) {
			return Err(dead_err());
		}
		self.inner.next_child(keychain_mask, parent_key_id)
	}
	fn last_confirmed_height(&mut self) -> Result<u64, Error> {
		self.inner.last_confirmed_height()
	}
	fn last_scanned_block(&mut self) -> Result<ScannedBlockInfo, Error> {
		self.inner.last_scanned_block()
	}
	fn init_status(&mut self) -> Result<WalletInitStatus, Error> {
		self.inner.init_status()
	}
}

/// Lifecycle provider that only hands out the (already opened) backend
struct CrashLC {
	backend: Box<dyn WalletBackend<'static, C, K> + 'static>,
}

impl WalletLCProvider<'static, C, K> for CrashLC {
	fn set_top_level_directory(&mut self, _dir: &str) -> Result<(), Error> {
		unimplemented!()
	}
	fn get_top_level_directory(&self) -> Result<String, Error> {
		unimplemented!()
	}
	fn create_config(
		&self,
		_chain_type: &global::ChainTypes,
		_file_name: &str,
		_wallet_config: Option<config::WalletConfig>,
		_logging_config: Option<util::logger::LoggingConfig>,
		_tor_config: Option<config::TorConfig>,
	) -> Result<(), Error> {
		unimplemented!()
	}
	fn create_wallet(
		&mut self,
		_name: Option<&str>,
		_mnemonic: Option<ZeroingString>,
		_mnemonic_length: usize,
		_password: ZeroingString,
		_test_mode: bool,
	) -> Result<(), Error> {
		unimplemented!()
	}
	fn open_wallet(
		&mut self,
		_name: Option<&str>,
		_password: ZeroingString,
		_create_mask: bool,
		_use_test_rng: bool,
	) -> Result<Option<SecretKey>, Error> {
		unimplemented!()
	}
	fn close_wallet(&mut self, _name: Option<&str>) -> Result<(), Error> {
		unimplemented!()
	}
	fn wallet_exists(&self, _name: Option<&str>) -> Result<bool, Error> {
		unimplemented!()
	}
	fn get_mnemonic(
		&self,
		_name: Option<&str>,
		_password: ZeroingString,
	) -> Result<ZeroingString, Error> {
		unimplemented!()
	}
	fn validate_mnemonic(&self, _mnemonic: ZeroingString) -> Result<(), Error> {
		unimplemented!()
	}
	fn recover_from_mnemonic(
		&self,
		_mnemonic: ZeroingString,
		_password: ZeroingString,
	) -> Result<(), Error> {
		unimplemented!()
	}
	fn change_password(
		&self,
		_name: Option<&str>,
		_old: ZeroingString,
		_new: ZeroingString,
	) -> Result<(), Error> {
		unimplemented!()
	}
	fn delete_wallet(&self, _name: Option<&str>) -> Result<(), Error> {
		unimplemented!()
	}
	fn wallet_inst(
		&mut self,
	) -> Result<&mut Box<dyn WalletBackend<'static, C, K> + 'static>, Error> {
		Ok(&mut self.backend)
	}
}

struct CrashInst {
	lc: CrashLC,
}

impl WalletInst<'static, CrashLC, C, K> for CrashInst {
	fn lc_provider(
		&mut self,
	) -> Result<&mut (dyn WalletLCProvider<'static, C, K> + 'static), Error> {
		Ok(&mut self.lc)
	}
}


type NormalWallet = Arc<
	Mutex<Box<dyn WalletInst<'static, impls::DefaultLCProvider<'static, C, K>, C, K>>>,
>;

fn close(wallet: &NormalWallet) -> Result<ZeroingString, Error> {
	let mut w_lock = wallet.lock();
	let lc = w_lock.lc_provider()?;
	let mnemonic = lc.get_mnemonic(None, ZeroingString::from(""))?;
	// drops the backend: the LMDB environment is closed
	lc.close_wallet(None)?;
	Ok(mnemonic)
}

fn reopen(wallet: &NormalWallet) -> Result<(), Error> {
	let mut w_lock = wallet.lock();
	let lc = w_lock.lc_provider()?;
	lc.open_wallet(None, ZeroingString::from(""), false, false)?;
	Ok(())
}

fn crash_backend(
	test_dir: &str,
	name: &str,
	client: C,
	mnemonic: &ZeroingString,
	crash: Arc<Crash>,
) -> Result<CrashBackend, Error> {
	let data_dir = format!("{}/{}/wallet_data", test_dir, name);
	let mut backend = CrashBackend {
		inner: LMDBBackend::new(&data_dir, client)?,
		crash,
	};
	let seed = keychain::mnemonic::to_entropy(mnemonic)
		.map_err(|e| Error::GenericError(format!("mnemonic: {}", e)))?;
	let kc = ExtKeychain::from_seed(&seed, global::is_testnet())?;
	backend.set_keychain(Box::new(kc), false, false)?;
	Ok(backend)
}

/// scan(delete_unconfirmed = true) repairs a pending send one output per batch, each batch
/// cancelling the log entry again: dying between two of them leaves inputs Locked under an
/// entry that is already cancelled, which cancel_tx then refuses to touch.
fn scan_unlock_interrupted_impl(test_dir: &'static str) -> Result<(), Error> {
	let mut wallet_proxy = create_wallet_proxy(test_dir);
	let chain = wallet_proxy.chain.clone();
	let stopper = wallet_proxy.running.clone();
	create_wallet_and_add!(
		client1,
		wallet1,
		mask1_i,
		test_dir,
		"wallet1",
		None,
		&mut wallet_proxy,
		false
	);
	let mask1 = (&mask1_i).as_ref();
	thread::spawn(move || {
		if let Err(e) = wallet_proxy.run() {
			panic!("Wallet Proxy error: {}", e);
		}
	});
	let reward = core::consensus::REWARD;
	let _ = test_framework::award_blocks_to_wallet(&chain, wallet1.clone(), mask1, 6, false);

	// a pending send that reserves several inputs
	let mut slate_id = None;
	wallet::controller::owner_single_use(Some(wallet1.clone()), mask1, None, |api, m| {
		let args = InitTxArgs {
			src_acct_name: None,
			amount: reward * 2,
			minimum_confirmations: 1,
			max_outputs: 500,
			num_change_outputs: 1,
			selection_strategy_is_use_all: true,
			..Default::default()
		};
		let slate = api.init_send_tx(m, args)?;
		api.tx_lock_outputs(m, &slate)?;
		slate_id = Some(slate.id);
		let (_, info) = api.retrieve_summary_info(m, true, 1)?;
		println!("before the scan: {:?}", info);
		Ok(())
	})?;

	// the repairing scan dies at the commit of its second repair batch
	let mnemonic = close(&wallet1)?;
	let crash = Arc::new(Crash {
		armed: AtomicBool::new(true),
		kind: Kind::SavesTxLogEntry,
		countdown: AtomicUsize::new(2),
		dead: AtomicBool::new(false),
	});
	{
		let backend = crash_backend(test_dir, "wallet1", client1.clone(), &mnemonic, crash.clone())?;
		let inst = Box::new(CrashInst {
			lc: CrashLC {
				backend: Box::new(backend),
			},
		}) as Box<dyn WalletInst<'static, CrashLC, C, K>>;
		let inst = Arc::new(Mutex::new(inst));
		let res = libwallet::api_impl::owner::scan(inst.clone(), None, None, true, &None);
		println!("interrupted scan: {:?}", res.is_err());
		assert!(res.is_err() && crash.dead.load(Ordering::SeqCst));
		drop(inst);
	}
	reopen(&wallet1)?;

	let mut problems: Vec<String> = vec![];
	wallet::controller::owner_single_use(Some(wallet1.clone()), mask1, None, |api, m| {
		let (_, txs) = api.retrieve_txs(m, false, None, slate_id, None)?;
		let (_, outputs) = api.retrieve_outputs(m, false, false, None)?;
		for t in &txs {
			println!("entry {}: {:?} confirmed {}", t.id, t.tx_type, t.confirmed);
		}
		for o in &outputs {
			let o = &o.output;
			if o.status == OutputStatus::Locked {
				let live = txs.iter().any(|t| {
					Some(t.id) == o.tx_log_entry
						&& t.tx_type == TxLogEntryType::TxSent
						&& !t.confirmed
				});
				if !live {
					problems.push(format!(
						"output {} is Locked, its log entry {:?} is not a live send",
						o.key_id, o.tx_log_entry
					));
				}
			}
		}
		let res = api.cancel_tx(m, None, slate_id);
		println!("cancel_tx after reopening: {:?}", res);
		let (_, info) = api.retrieve_summary_info(m, true, 1)?;
		println!("after cancel_tx: {:?}", info);
		if info.amount_locked != 0 {
			problems.push(format!(
				"{} still locked after cancel_tx ({:?})",
				info.amount_locked, res
			));
		}
		Ok(())
	})?;
	stopper.store(false, Ordering::Relaxed);
	thread::sleep(Duration::from_millis(200));
	assert!(problems.is_empty(), "{:#?}", problems);
	Ok(())
}

/// A late-locked send stores the context without its late-lock arguments, then reserves
/// in a second step: dying in between leaves a finalize_tx that no longer reserves and
/// can no longer complete.
fn late_lock_finalize_interrupted_impl(test_dir: &'static str) -> Result<(), Error> {
	let mut wallet_proxy = create_wallet_proxy(test_dir);
	let chain = wallet_proxy.chain.clone();
	let stopper = wallet_proxy.running.clone();
	create_wallet_and_add!(
		client1,
		wallet1,
		mask1_i,
		test_dir,
		"wallet1",
		None,
		&mut wallet_proxy,
		false
	);
	let mask1 = (&mask1_i).as_ref();
	create_wallet_and_add!(
		client2,
		wallet2,
		mask2_i,
		test_dir,
		"wallet2",
		None,
		&mut wallet_proxy,
		false
	);
	let _ = (&client2, &wallet2, &mask2_i);
	thread::spawn(move || {
		if let Err(e) = wallet_proxy.run() {
			panic!("Wallet Proxy error: {}", e);
		}
	});
	let reward = core::consensus::REWARD;
	let _ = test_framework::award_blocks_to_wallet(&chain, wallet1.clone(), mask1, 6, false);

	let mut slate = libwallet::Slate::blank(2, false);
	wallet::controller::owner_single_use(Some(wallet1.clone()), mask1, None, |api, m| {
		let args = InitTxArgs {
			src_acct_name: None,
			amount: reward,
			minimum_confirmations: 1,
			max_outputs: 500,
			num_change_outputs: 1,
			selection_strategy_is_use_all: false,
			late_lock: Some(true),
			..Default::default()
		};
		let s = api.init_send_tx(m, args)?;
		slate = client1.send_tx_slate_direct("wallet2", &s)?;
		Ok(())
	})?;

	// finalize_tx dies at the commit of the batch that reserves the inputs
	let mnemonic = close(&wallet1)?;
	let crash = Arc::new(Crash {
		armed: AtomicBool::new(true),
		kind: Kind::LocksOutput,
		countdown: AtomicUsize::new(1),
		dead: AtomicBool::new(false),
	});
	{
		let mut backend =
			crash_backend(test_dir, "wallet1", client1.clone(), &mnemonic, crash.clone())?;
		let res = libwallet::api_impl::owner::finalize_tx(&mut backend, None, &slate);
		println!("interrupted finalize_tx: {:?}", res.as_ref().err());
		assert!(res.is_err() && crash.dead.load(Ordering::SeqCst));
		drop(backend);
	}
	reopen(&wallet1)?;

	let mut problems: Vec<String> = vec![];
	wallet::controller::owner_single_use(Some(wallet1.clone()), mask1, None, |api, m| {
		let (_, txs) = api.retrieve_txs(m, true, None, Some(slate.id), None)?;
		let (_, info) = api.retrieve_summary_info(m, true, 1)?;
		println!(
			"after reopening: {} log entries for the slate, {} locked",
			txs.len(),
			info.amount_locked
		);
		let res = api.finalize_tx(m, &slate);
		println!("finalize_tx again: {:?}", res.as_ref().err());
		if let Err(e) = res {
			problems.push(format!("finalize_tx cannot be repeated after the crash: {}", e));
			// by hand
			let l = api.tx_lock_outputs(m, &slate);
			let f = api.finalize_tx(m, &slate);
			println!(
				"tx_lock_outputs by hand: {:?}, then finalize_tx: {:?}",
				l.err(),
				f.err()
			);
		}
		Ok(())
	})?;
	stopper.store(false, Ordering::Relaxed);
	thread::sleep(Duration::from_millis(200));
	assert!(problems.is_empty(), "{:#?}", problems);
	Ok(())
}

#[test]
fn scan_unlock_interrupted() {
	let test_dir = "test_output/probe_scan_unlock_interrupted";
	setup(test_dir);
	if let Err(e) = scan_unlock_interrupted_impl(test_dir) {
		panic!("Libwallet Error: {}", e);
	}
	clean_output_dir(test_dir);
}

#[test]
fn late_lock_finalize_interrupted() {
	let test_dir = "test_output/probe_late_lock_finalize_interrupted";
	setup(test_dir);
	if let Err(e) = late_lock_finalize_interrupted_impl(test_dir) {
		panic!("Libwallet Error: {}", e);
	}
	clean_output_dir(test_dir);
}
