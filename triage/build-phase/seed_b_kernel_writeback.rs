// SUSPECT B: update_wallet_state step 2 / update_txs_via_kernel writes a stale
// snapshot copy of a TxLogEntry back, overwriting whatever another operation
// stored in that entry between the snapshot and the write-back.
//
// All interleaving is deterministic: a wrapper NodeClient (HookClient) runs a
// one-shot closure at the start of a chosen node call that the refresh makes
// while it does NOT hold the wallet lock.
#[macro_use]
extern crate log;
extern crate grin_wallet_controller as wallet;
extern crate grin_wallet_impls as impls;

use grin_core as core;
use grin_keychain as keychain;
use grin_util as util;

use grin_wallet_libwallet as libwallet;
use impls::test_framework::{self, LocalWalletClient, WalletProxy};
use impls::{DefaultLCProvider, DefaultWalletImpl};
use keychain::ExtKeychain;
use libwallet::{
	InitTxArgs, NodeClient, NodeVersionInfo, OutputStatus, Slate, TxLogEntry, WalletInst,
};
use std::collections::HashMap;
use std::sync::atomic::Ordering;
use std::sync::{Arc, Mutex as StdMutex};
use std::thread;
use std::time::Duration;
use util::secp::key::SecretKey;
use util::secp::pedersen;
use util::{Mutex, ZeroingString};

#[macro_use]
mod common;
use common::{clean_output_dir, setup};

// ---------------------------------------------------------------------------
// test-only hook infrastructure
// ---------------------------------------------------------------------------

/// hook gets the name of the node-client method about to be executed; returns
/// true when it has fired (it is then dropped), false to stay armed
type Hook = Box<dyn FnMut(&str) -> bool + Send>;

#[derive(Clone)]
struct HookClient {
	inner: LocalWalletClient,
	hook: Arc<StdMutex<Option<Hook>>>,
}

impl HookClient {
	fn new(inner: LocalWalletClient) -> Self {
		HookClient {
			inner,
			hook: Arc::new(StdMutex::new(None)),
		}
	}
	fn set_hook(&self, h: Hook) {
		*self.hook.lock().unwrap() = Some(h);
	}
	fn fire(&self, method: &str) {
		// take the hook out, so that node calls made by the hook itself don't recurse
		let h = self.hook.lock().unwrap().take();
		if let Some(mut h) = h {
			let done = h(method);
			if !done {
				let mut g = self.hook.lock().unwrap();
				if g.is_none() {
					*g = Some(h);
				}
			}
		}
	}
}

impl NodeClient for HookClient {
	fn node_url(&self) -> &str {
		self.inner.node_url()
	}
	fn node_api_secret(&self) -> Option<String> {
		self.inner.node_api_secret()
	}
	fn set_node_url(&mut self, u: &str) {
		self.inner.set_node_url(u)
	}
	fn set_node_api_secret(&mut self, s: Option<String>) {
		self.inner.set_node_api_secret(s)
	}
	fn get_version_info(&mut self) -> Option<NodeVersionInfo> {
		self.inner.get_version_info()
	}
	fn post_tx(&self, tx: &core::core::Transaction, fluff: bool) -> Result<(), libwallet::Error> {
		self.fire("post_tx");
		self.inner.post_tx(tx, fluff)
	}
	fn get_chain_tip(&self) -> Result<(u64, String), libwallet::Error> {
		self.fire("get_chain_tip");
		self.inner.get_chain_tip()
	}
	fn get_outputs_from_node(
		&self,
		wallet_outputs: Vec<pedersen::Commitment>,
	) -> Result<HashMap<pedersen::Commitment, (String, u64, u64)>, libwallet::Error> {
		self.fire("get_outputs_from_node");
		self.inner.get_outputs_from_node(wallet_outputs)
	}
	fn get_kernel(
		&mut self,
		excess: &pedersen::Commitment,
		min_height: Option<u64>,
		max_height: Option<u64>,
	) -> Result<Option<(core::core::TxKernel, u64, u64)>, libwallet::Error> {
		self.fire("get_kernel");
		self.inner.get_kernel(excess, min_height, max_height)
	}
	fn get_outputs_by_pmmr_index(
		&self,
		start_index: u64,
		end_index: Option<u64>,
		max_outputs: u64,
	) -> Result<
		(
			u64,
			u64,
			Vec<(pedersen::Commitment, pedersen::RangeProof, bool, u64, u64)>,
		),
		libwallet::Error,
	> {
		self.fire("get_outputs_by_pmmr_index");
		self.inner
			.get_outputs_by_pmmr_index(start_index, end_index, max_outputs)
	}
	fn height_range_to_pmmr_indices(
		&self,
		start_height: u64,
		end_height: Option<u64>,
	) -> Result<(u64, u64), libwallet::Error> {
		self.fire("height_range_to_pmmr_indices");
		self.inner
			.height_range_to_pmmr_indices(start_height, end_height)
	}
}

type HookLC = DefaultLCProvider<'static, HookClient, ExtKeychain>;
type HookWallet = Arc<Mutex<Box<dyn WalletInst<'static, HookLC, HookClient, ExtKeychain>>>>;

fn create_hook_wallet(
	test_dir: &str,
	name: &str,
	client: HookClient,
) -> (HookWallet, Option<SecretKey>) {
	let mut wallet = Box::new(DefaultWalletImpl::<HookClient>::new(client).unwrap())
		as Box<dyn WalletInst<'static, HookLC, HookClient, ExtKeychain>>;
	let lc = wallet.lc_provider().unwrap();
	let _ = lc.set_top_level_directory(&format!("{}/{}", test_dir, name));
	lc.create_wallet(None, None, 32, ZeroingString::from(""), false)
		.unwrap();
	let mask = lc
		.open_wallet(None, ZeroingString::from(""), true, false)
		.unwrap();
	(Arc::new(Mutex::new(wallet)), mask)
}

fn fmt_entry(t: &TxLogEntry) -> String {
	format!(
		"id={} type={:?} confirmed={} debited={} credited={} kernel_excess={:?} ttl_cutoff_height={:?} proof.sender_signature={}",
		t.id,
		t.tx_type,
		t.confirmed,
		t.amount_debited,
		t.amount_credited,
		t.kernel_excess.map(|e| util::ToHex::to_hex(&e.0.to_vec())[..12].to_owned()),
		t.ttl_cutoff_height,
		match &t.payment_proof {
			None => "<no proof>".to_owned(),
			Some(p) => match p.sender_signature {
				Some(_) => "Some(<sig>)".to_owned(),
				None => "None".to_owned(),
			},
		}
	)
}

struct Env {
	chain: Arc<grin_chain::Chain>,
	stopper: Arc<std::sync::atomic::AtomicBool>,
	client1: HookClient,
	wallet1: HookWallet,
	mask1_i: Option<SecretKey>,
	wallet2: HookWallet,
	mask2_i: Option<SecretKey>,
}

fn build_env(test_dir: &'static str) -> Env {
	let mut wallet_proxy: WalletProxy<HookLC, HookClient, ExtKeychain> = WalletProxy::new(test_dir);
	let chain = wallet_proxy.chain.clone();
	let stopper = wallet_proxy.running.clone();

	let client1 = HookClient::new(LocalWalletClient::new("wallet1", wallet_proxy.tx.clone()));
	let (wallet1, mask1_i) = create_hook_wallet(test_dir, "wallet1", client1.clone());
	wallet_proxy.add_wallet(
		"wallet1",
		client1.inner.get_send_instance(),
		wallet1.clone(),
		mask1_i.clone(),
	);
	let client2 = HookClient::new(LocalWalletClient::new("wallet2", wallet_proxy.tx.clone()));
	let (wallet2, mask2_i) = create_hook_wallet(test_dir, "wallet2", client2.clone());
	wallet_proxy.add_wallet(
		"wallet2",
		client2.inner.get_send_instance(),
		wallet2.clone(),
		mask2_i.clone(),
	);

	thread::spawn(move || {
		if let Err(e) = wallet_proxy.run() {
			error!("Wallet Proxy error: {}", e);
		}
	});
	Env {
		chain,
		stopper,
		client1,
		wallet1,
		mask1_i,
		wallet2,
		mask2_i,
	}
}

// ---------------------------------------------------------------------------
// B1: fully API-level.  Sender (wallet1) has locked outputs for a no-change
// send with a payment proof (TxSent entry E stored, sender_signature = None).
// A refresh (retrieve_txs(refresh_from_node=true)) snapshots E, releases the
// wallet lock, and before it asks the node for the tip/kernel, the "other
// operation" runs to completion through the normal Owner API:
//   finalize_tx  (stores payment_proof.sender_signature in E)  + post_tx (mined)
// The refresh then finds E's kernel on chain and writes its snapshot of E back.
// ---------------------------------------------------------------------------
fn seed_b1_impl(test_dir: &'static str, interleave: bool) -> Result<(), libwallet::Error> {
	let tag = if interleave { "B1" } else { "B1-control" };
	let env = build_env(test_dir);
	let (wallet1, wallet2) = (env.wallet1.clone(), env.wallet2.clone());
	let mask1 = (&env.mask1_i).as_ref();
	let mask2 = (&env.mask2_i).as_ref();
	let reward = core::consensus::REWARD;
	let fee = core::libtx::tx_fee(1, 1, 1);

	test_framework::award_blocks_to_wallet(&env.chain, wallet1.clone(), mask1, 4, false)?;

	let mut address = None;
	wallet::controller::owner_single_use(Some(wallet2.clone()), mask2, None, |api, m| {
		address = Some(api.get_slatepack_address(m, 0)?);
		Ok(())
	})?;

	// init + receive + lock (entry E is created by tx_lock_outputs)
	let mut slate = Slate::blank(2, false);
	wallet::controller::owner_single_use(Some(wallet1.clone()), mask1, None, |api, m| {
		let args = InitTxArgs {
			src_acct_name: None,
			amount: reward - fee, // whole coinbase output, no change
			minimum_confirmations: 2,
			max_outputs: 500,
			num_change_outputs: 1,
			selection_strategy_is_use_all: false,
			payment_proof_recipient_address: address.clone(),
			..Default::default()
		};
		let slate_i = api.init_send_tx(m, args)?;
		slate = env.client1.inner.send_tx_slate_direct("wallet2", &slate_i)?;
		api.tx_lock_outputs(m, &slate)?;
		let (_, txs) = api.retrieve_txs(m, false, None, Some(slate.id), None)?;
		println!("{}: after tx_lock_outputs      : {}", tag, fmt_entry(&txs[0]));
		assert!(!txs[0].confirmed);
		assert_eq!(txs[0].amount_credited, 0);
		assert!(txs[0].payment_proof.as_ref().unwrap().sender_signature.is_none());
		Ok(())
	})?;

	// the "other operation": finalize + post through the normal Owner API
	let other_op = {
		let wallet1 = wallet1.clone();
		let mask1_i = env.mask1_i.clone();
		let slate = slate.clone();
		let tag = tag.to_owned();
		move || {
			let mask1 = (&mask1_i).as_ref();
			wallet::controller::owner_single_use(Some(wallet1.clone()), mask1, None, |api, m| {
				let s = api.finalize_tx(m, &slate)?;
				api.post_tx(m, &s, false)?; // test node mines it at once
				let (_, txs) = api.retrieve_txs(m, false, None, Some(slate.id), None)?;
				println!(
					"{}: other op finalize_tx+post_tx done, entry now: {}",
					tag,
					fmt_entry(&txs[0])
				);
				assert!(txs[0].payment_proof.as_ref().unwrap().sender_signature.is_some());
				Ok(())
			})
			.unwrap();
		}
	};

	if interleave {
		let w = wallet1.clone();
		let mut other_op = Some(other_op);
		let tag = tag.to_owned();
		env.client1.set_hook(Box::new(move |method| {
			// first get_chain_tip the refresh makes while NOT holding the wallet lock
			// = the one at the top of update_txs_via_kernel, i.e. just after the
			// snapshot `txs` has been read in update_wallet_state step 2
			if method != "get_chain_tip" {
				return false;
			}
			match w.try_lock() {
				None => return false, // refresh holds the wallet lock (step 1)
				Some(g) => drop(g),
			}
			println!(
				"{}: >>> hook: refresh is between its snapshot and its kernel lookup (wallet lock free)",
				tag
			);
			(other_op.take().unwrap())();
			println!("{}: <<< hook done, refresh resumes", tag);
			true
		}));
	} else {
		other_op();
	}

	// the refresh
	let slate_id = slate.id;
	wallet::controller::owner_single_use(Some(wallet1.clone()), mask1, None, |api, m| {
		let (refreshed, txs) = api.retrieve_txs(m, true, None, Some(slate_id), None)?;
		assert!(refreshed);
		println!("{}: after retrieve_txs(refresh): {}", tag, fmt_entry(&txs[0]));
		let e = txs[0].clone();
		let pp = api.retrieve_payment_proof(m, false, None, Some(slate_id));
		println!(
			"{}: retrieve_payment_proof -> {}",
			tag,
			match &pp {
				Ok(_) => "Ok(<proof>)".to_owned(),
				Err(e) => format!("Err({})", e),
			}
		);
		// the transaction really is on chain
		let (_, outs) = api.retrieve_outputs(m, false, false, Some(e.id))?;
		for o in &outs {
			println!(
				"{}: output of tx {}: value={} status={:?}",
				tag, e.id, o.output.value, o.output.status
			);
			assert!(
				o.output.status == OutputStatus::Spent || o.output.status == OutputStatus::Locked
			);
		}
		if interleave {
			// OBSERVED (real code): NOT lost here.  The kernel_excess stored by
			// tx_lock_outputs (before finalize) is not the final kernel excess, so the
			// refresh's snapshot copy does not match any kernel on chain, nothing is
			// written back and finalize_tx's update survives.  The entry merely stays
			// unconfirmed until the next refresh.
			assert!(!e.confirmed);
			assert!(e.payment_proof.as_ref().unwrap().sender_signature.is_some());
			assert!(pp.is_ok());
			println!(
				"{}: NOT LOST - pre-finalize snapshot carries a non-final kernel_excess, so no kernel was found and no write-back happened",
				tag
			);
			let (_, txs) = api.retrieve_txs(m, true, None, Some(slate_id), None)?;
			println!("{}: after a second refresh     : {}", tag, fmt_entry(&txs[0]));
			assert!(txs[0].confirmed);
		} else {
			assert!(e.confirmed, "entry was confirmed by kernel lookup");
			assert!(e.payment_proof.as_ref().unwrap().sender_signature.is_some());
			assert!(pp.is_ok());
		}
		Ok(())
	})?;

	env.stopper.store(false, Ordering::Relaxed);
	thread::sleep(Duration::from_millis(300));
	Ok(())
}

// ---------------------------------------------------------------------------
// B2: hook at get_kernel itself (later point of the same window).  The tx is
// already finalized, posted and mined; the sender's no-change TxSent entry is
// still unconfirmed in the wallet.  While the refresh waits for the node's
// get_kernel answer, "another operation" updates the entry.  Here that other
// operation is a direct batch write (ttl_cutoff_height = Some(424242)) - it
// stands for any completed operation that stores something in the entry (the
// private body of cancel_tx, finalize_tx, scan's cancel_tx_log_entry, ...).
// ---------------------------------------------------------------------------
fn seed_b2_impl(test_dir: &'static str) -> Result<(), libwallet::Error> {
	let env = build_env(test_dir);
	let (wallet1, _wallet2) = (env.wallet1.clone(), env.wallet2.clone());
	let mask1 = (&env.mask1_i).as_ref();
	let reward = core::consensus::REWARD;
	let fee = core::libtx::tx_fee(1, 1, 1);

	test_framework::award_blocks_to_wallet(&env.chain, wallet1.clone(), mask1, 4, false)?;

	let mut slate = Slate::blank(2, false);
	wallet::controller::owner_single_use(Some(wallet1.clone()), mask1, None, |api, m| {
		let args = InitTxArgs {
			src_acct_name: None,
			amount: reward - fee,
			minimum_confirmations: 2,
			max_outputs: 500,
			num_change_outputs: 1,
			selection_strategy_is_use_all: false,
			..Default::default()
		};
		slate = api.init_send_tx(m, args)?;
		slate = env.client1.inner.send_tx_slate_direct("wallet2", &slate)?;
		api.tx_lock_outputs(m, &slate)?;
		slate = api.finalize_tx(m, &slate)?;
		api.post_tx(m, &slate, false)?; // mined
		let (_, txs) = api.retrieve_txs(m, false, None, Some(slate.id), None)?;
		println!("B2: after post_tx (mined), no refresh: {}", fmt_entry(&txs[0]));
		assert!(!txs[0].confirmed);
		Ok(())
	})?;

	let slate_id = slate.id;
	{
		let w = wallet1.clone();
		let mask1_i = env.mask1_i.clone();
		env.client1.set_hook(Box::new(move |method| {
			if method != "get_kernel" {
				return false;
			}
			println!("B2: >>> hook at get_kernel (wallet lock free: {})", w.try_lock().is_some());
			let mut w_lock = w.lock();
			let lc = w_lock.lc_provider().unwrap();
			let backend = lc.wallet_inst().unwrap();
			let mut e = backend
				.tx_log_iter()
				.find(|t| t.tx_slate_id == Some(slate_id))
				.unwrap();
			let parent = e.parent_key_id.clone();
			e.ttl_cutoff_height = Some(424242);
			{
				let mut batch = backend.batch((&mask1_i).as_ref()).unwrap();
				batch.save_tx_log_entry(e.clone(), &parent).unwrap();
				batch.commit().unwrap();
			}
			let e2 = backend
				.tx_log_iter()
				.find(|t| t.tx_slate_id == Some(slate_id))
				.unwrap();
			println!("B2: other op stored marker, entry now : {}", fmt_entry(&e2));
			println!("B2: <<< hook done, refresh resumes");
			true
		}));
	}

	wallet::controller::owner_single_use(Some(wallet1.clone()), mask1, None, |api, m| {
		let (refreshed, txs) = api.retrieve_txs(m, true, None, Some(slate_id), None)?;
		assert!(refreshed);
		println!("B2: after retrieve_txs(refresh)       : {}", fmt_entry(&txs[0]));
		assert!(txs[0].confirmed);
		assert_eq!(
			txs[0].ttl_cutoff_height, None,
			"expected concurrent marker to be lost"
		);
		println!("B2: CONFIRMED - marker written during the kernel lookup was overwritten by the stale snapshot");
		Ok(())
	})?;

	env.stopper.store(false, Ordering::Relaxed);
	thread::sleep(Duration::from_millis(300));
	Ok(())
}

// ---------------------------------------------------------------------------
// B3: fully API-level, two real threads, made deterministic with blocking hooks.
//   T2 = Owner::cancel_tx(E)         T1 = Owner::retrieve_txs(refresh_from_node = true)
// E = sender's no-change TxSent entry; tx built + finalized, waiting to be mined.
//   1. T2 starts cancel_tx; its own refresh (update_wallet_state) finds no kernel
//      (tx not mined yet).  T2 is held at its next node call (gate).
//   2. a block containing the tx is mined.
//   3. T1 starts the refresh: snapshots E (TxSent, unconfirmed), releases the lock,
//      reaches get_kernel -> gate opened, T1 waits until T2's cancel_tx has returned.
//      T2: E -> TxSentCancelled, input X -> Unspent, returns Ok.
//   4. T1 gets the kernel from the node and writes its snapshot of E back.
// ---------------------------------------------------------------------------
fn seed_b3_impl(test_dir: &'static str) -> Result<(), libwallet::Error> {
	use std::sync::mpsc::channel;
	let env = build_env(test_dir);
	let (wallet1, wallet2) = (env.wallet1.clone(), env.wallet2.clone());
	let mask1 = (&env.mask1_i).as_ref();
	let mask2 = (&env.mask2_i).as_ref();
	let reward = core::consensus::REWARD;
	let fee = core::libtx::tx_fee(1, 1, 1);

	test_framework::award_blocks_to_wallet(&env.chain, wallet1.clone(), mask1, 4, false)?;

	let mut slate = Slate::blank(2, false);
	let mut e_id = 0;
	wallet::controller::owner_single_use(Some(wallet1.clone()), mask1, None, |api, m| {
		let args = InitTxArgs {
			src_acct_name: None,
			amount: reward - fee,
			minimum_confirmations: 2,
			max_outputs: 500,
			num_change_outputs: 1,
			selection_strategy_is_use_all: false,
			..Default::default()
		};
		slate = api.init_send_tx(m, args)?;
		slate = env.client1.inner.send_tx_slate_direct("wallet2", &slate)?;
		api.tx_lock_outputs(m, &slate)?;
		slate = api.finalize_tx(m, &slate)?;
		// not posted through the test client (that would mine at once): the tx is
		// "in the mempool" until the test mines it below
		let (_, txs) = api.retrieve_txs(m, false, None, Some(slate.id), None)?;
		e_id = txs[0].id;
		println!("B3: tx built+finalized, not mined : {}", fmt_entry(&txs[0]));
		Ok(())
	})?;
	let tx = slate.tx.clone().unwrap();
	let slate_id = slate.id;

	let dump_outputs = |label: &str| {
		let mut w_lock = wallet1.lock();
		let lc = w_lock.lc_provider().unwrap();
		let w = lc.wallet_inst().unwrap();
		for o in w.iter().filter(|o| o.tx_log_entry == Some(e_id)) {
			println!(
				"B3: {} input X: value={} status={:?} tx_log_entry={:?}",
				label, o.value, o.status, o.tx_log_entry
			);
		}
	};
	dump_outputs("before            ");

	// --- T2 with its gate
	let (at_gate_tx, at_gate_rx) = channel::<()>();
	let (go_tx, go_rx) = channel::<()>();
	{
		let go_rx = StdMutex::new(go_rx);
		env.client1.set_hook(Box::new(move |method| {
			if method != "get_outputs_by_pmmr_index" || thread::current().name() != Some("T2") {
				return false;
			}
			// T2 is in update_wallet_state step 3, i.e. past its own kernel lookup
			println!("B3: [T2] cancel_tx: own refresh found no kernel; held at gate");
			at_gate_tx.send(()).unwrap();
			go_rx.lock().unwrap().recv().unwrap();
			println!("B3: [T2] released");
			true
		}));
	}
	let t2 = {
		let wallet1 = wallet1.clone();
		let mask1_i = env.mask1_i.clone();
		thread::Builder::new()
			.name("T2".to_owned())
			.spawn(move || {
				core::global::set_local_chain_type(core::global::ChainTypes::AutomatedTesting);
				let mut res = None;
				let _ = wallet::controller::owner_single_use(
					Some(wallet1.clone()),
					(&mask1_i).as_ref(),
					None,
					|api, m| {
						res = Some(api.cancel_tx(m, Some(e_id), None).map_err(|e| format!("{}", e)));
						Ok(())
					},
				);
				res.unwrap()
			})
			.unwrap()
	};
	at_gate_rx.recv().unwrap();

	// --- the block
	test_framework::award_block_to_wallet(&env.chain, &[tx], wallet2.clone(), mask2)?;
	println!(
		"B3: block {} mined, contains the tx",
		env.chain.head().unwrap().height
	);

	// --- T1 with its hook
	{
		let mut t2 = Some(t2);
		let w = wallet1.clone();
		env.client1.set_hook(Box::new(move |method| {
			if method != "get_kernel" {
				return false;
			}
			println!("B3: [T1] refresh: snapshot taken, at get_kernel; letting T2 finish");
			go_tx.send(()).unwrap();
			let res = t2.take().unwrap().join().unwrap();
			println!("B3: [T2] cancel_tx returned {:?}", res);
			assert!(res.is_ok());
			let mut w_lock = w.lock();
			let lc = w_lock.lc_provider().unwrap();
			let backend = lc.wallet_inst().unwrap();
			let e = backend
				.tx_log_iter()
				.find(|t| t.tx_slate_id == Some(slate_id))
				.unwrap();
			println!("B3: entry after T2's cancel_tx    : {}", fmt_entry(&e));
			for o in backend.iter().filter(|o| o.tx_log_entry == Some(e.id)) {
				println!(
					"B3: after cancel_tx    input X: value={} status={:?}",
					o.value, o.status
				);
			}
			true
		}));
	}
	wallet::controller::owner_single_use(Some(wallet1.clone()), mask1, None, |api, m| {
		let (refreshed, txs) = api.retrieve_txs(m, true, None, Some(slate_id), None)?;
		assert!(refreshed);
		println!("B3: [T1] after retrieve_txs(refresh): {}", fmt_entry(&txs[0]));
		assert!(txs[0].confirmed);
		assert_eq!(txs[0].tx_type, libwallet::TxLogEntryType::TxSent);
		Ok(())
	})?;
	dump_outputs("after both        ");

	// further refreshes do not repair it
	wallet::controller::owner_single_use(Some(wallet1.clone()), mask1, None, |api, m| {
		let (_, info) = api.retrieve_summary_info(m, true, 1)?;
		let (_, txs) = api.retrieve_txs(m, true, None, Some(slate_id), None)?;
		println!("B3: after two more refreshes      : {}", fmt_entry(&txs[0]));
		let (_, outs) = api.retrieve_outputs(m, true, false, Some(e_id))?;
		for o in &outs {
			println!(
				"B3: after two more refreshes input X: value={} status={:?}",
				o.output.value, o.output.status
			);
			assert_eq!(o.output.status, OutputStatus::Spent);
		}
		let height = info.last_confirmed_height;
		println!(
			"B3: summary: height={} total={} spendable={} (mined {} blocks = {}, sent {} incl. fee => true balance {})",
			height,
			info.total,
			info.amount_currently_spendable,
			4,
			4 * reward,
			reward,
			3 * reward
		);
		assert_eq!(info.total, 3 * reward);
		Ok(())
	})?;
	println!("B3: CONFIRMED (lost update) - cancel_tx returned Ok and stored TxSentCancelled, the refresh's stale snapshot (TxSent) overwrote it with confirmed=true. End state here is benign (matches the chain; X had already been marked Spent by T1's step 1, so cancel_tx had nothing to unlock)");

	env.stopper.store(false, Ordering::Relaxed);
	thread::sleep(Duration::from_millis(300));
	Ok(())
}

#[test]
fn seed_b3_cancel_lost_in_refresh() {
	let test_dir = "test_output/seed_b3";
	setup(test_dir);
	if let Err(e) = seed_b3_impl(test_dir) {
		panic!("Libwallet Error: {}", e);
	}
	clean_output_dir(test_dir);
}

#[test]
fn seed_b1_finalize_lost_in_refresh() {
	let test_dir = "test_output/seed_b1";
	setup(test_dir);
	if let Err(e) = seed_b1_impl(test_dir, true) {
		panic!("Libwallet Error: {}", e);
	}
	clean_output_dir(test_dir);
}

#[test]
fn seed_b1_control_sequential() {
	let test_dir = "test_output/seed_b1_control";
	setup(test_dir);
	if let Err(e) = seed_b1_impl(test_dir, false) {
		panic!("Libwallet Error: {}", e);
	}
	clean_output_dir(test_dir);
}

#[test]
fn seed_b2_marker_lost_in_refresh() {
	let test_dir = "test_output/seed_b2";
	setup(test_dir);
	if let Err(e) = seed_b2_impl(test_dir) {
		panic!("Libwallet Error: {}", e);
	}
	clean_output_dir(test_dir);
}
