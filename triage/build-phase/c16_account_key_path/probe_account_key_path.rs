// Witness for C16 ("a new wallet created from the same recovery phrase and scanned finds exactly the
// unspent outputs belonging to that seed - with the right value, height, coinbase flag, maturity and
// account") and C04 (books per account), run against the real code.
//
// A send from an account that is not the active one (`src_acct_name`) files its change output under the
// source account (`root_key_id`), but derives the change key with `next_child`, i.e. under the *active*
// account (and bumps the active account's counter). A restore from the seed attributes outputs by their
// key path, so the restored wallet shows that output - and its value - in another account than the
// original wallet does.
#[macro_use]
extern crate log;
extern crate grin_wallet_controller as wallet;
extern crate grin_wallet_impls as impls;

use grin_core as core;
use grin_util as util;

use grin_wallet_libwallet as libwallet;
use impls::test_framework::{self, LocalWalletClient};
use libwallet::InitTxArgs;
use std::collections::BTreeMap;
use std::sync::atomic::Ordering;
use std::thread;
use std::time::Duration;
use util::ZeroingString;

#[macro_use]
mod common;
use common::{clean_output_dir, create_wallet_proxy, setup};

fn probe_impl(test_dir: &'static str) -> Result<(), libwallet::Error> {
	let seed_phrase = "affair pistol cancel crush garment candy ancient flag work \
	                   market crush dry stand focus mutual weapon offer ceiling rival turn team spring \
	                   where swift";
	let seed_phrase = Some(ZeroingString::from(seed_phrase));
	let mut wallet_proxy = create_wallet_proxy(test_dir);
	let chain = wallet_proxy.chain.clone();
	let stopper = wallet_proxy.running.clone();
	create_wallet_and_add!(client1, wallet1, mask1_i, test_dir, "wallet1", seed_phrase, &mut wallet_proxy, false);
	let mask1 = (&mask1_i).as_ref();
	create_wallet_and_add!(client2, wallet2, mask2_i, test_dir, "wallet2", None, &mut wallet_proxy, false);
	let mask2 = (&mask2_i).as_ref();
	create_wallet_and_add!(client3, wallet3, mask3_i, test_dir, "wallet3", seed_phrase, &mut wallet_proxy, false);
	let mask3 = (&mask3_i).as_ref();
	let _ = (&client2, &client3);
	thread::spawn(move || {
		if let Err(e) = wallet_proxy.run() {
			error!("Wallet Proxy error: {}", e);
		}
	});
	let reward = core::consensus::REWARD;

	// wallet1: account "second" owns all the funds, "default" is the active account
	wallet::controller::owner_single_use(Some(wallet1.clone()), mask1, None, |api, m| {
		api.create_account_path(m, "second")?;
		api.set_active_account(m, "second")?;
		Ok(())
	})?;
	let _ = test_framework::award_blocks_to_wallet(&chain, wallet1.clone(), mask1, 6, false);
	wallet::controller::owner_single_use(Some(wallet1.clone()), mask1, None, |api, m| {
		api.set_active_account(m, "default")?;
		Ok(())
	})?;

	// pay wallet2 from "second" while "default" is active; there is change
	wallet::controller::owner_single_use(Some(wallet1.clone()), mask1, None, |api, m| {
		let args = InitTxArgs {
			src_acct_name: Some("second".to_owned()),
			amount: reward / 2,
			minimum_confirmations: 2,
			max_outputs: 500,
			num_change_outputs: 1,
			selection_strategy_is_use_all: false,
			..Default::default()
		};
		let slate = api.init_send_tx(m, args)?;
		let slate = client1.send_tx_slate_direct("wallet2", &slate)?;
		api.tx_lock_outputs(m, &slate)?;
		let slate = api.finalize_tx(m, &slate)?;
		api.post_tx(m, &slate, false)?;
		Ok(())
	})?;
	let _ = test_framework::award_blocks_to_wallet(&chain, wallet2.clone(), mask2, 3, false);

	// the original wallet's books, per account path
	let mut problems: Vec<String> = vec![];
	let mut original: BTreeMap<String, u64> = BTreeMap::new();
	wallet::controller::owner_single_use(Some(wallet1.clone()), mask1, None, |api, m| {
		for acct in api.accounts(m)? {
			api.set_active_account(m, &acct.label)?;
			let (_, info) = api.retrieve_summary_info(m, true, 1)?;
			original.insert(format!("{}", acct.path), info.total);
			for o in api.retrieve_outputs(m, false, false, None)?.1 {
				println!(
					"original account {} ({}): output value {} key_id {} status {:?}",
					acct.label, acct.path, o.output.value, o.output.key_id, o.output.status
				);
				if o.output.key_id.parent_path() != acct.path {
					problems.push(format!(
						"output {} is filed under account {} but its key is derived under {}",
						o.output.key_id,
						acct.path,
						o.output.key_id.parent_path()
					));
				}
			}
		}
		api.set_active_account(m, "default")?;
		Ok(())
	})?;

	// restore the seed into the empty wallet3 and compare the books account by account
	let mut restored: BTreeMap<String, u64> = BTreeMap::new();
	wallet::controller::owner_single_use(Some(wallet3.clone()), mask3, None, |api, m| {
		api.scan(m, None, false)?;
		for acct in api.accounts(m)? {
			api.set_active_account(m, &acct.label)?;
			let (_, info) = api.retrieve_summary_info(m, true, 1)?;
			restored.insert(format!("{}", acct.path), info.total);
		}
		Ok(())
	})?;
	println!("original totals per account path: {:?}", original);
	println!("restored totals per account path: {:?}", restored);
	if original != restored {
		problems.push(format!(
			"the restored wallet attributes the funds to other accounts: original {:?}, restored {:?}",
			original, restored
		));
	}
	stopper.store(false, Ordering::Relaxed);
	thread::sleep(Duration::from_millis(200));
	assert!(problems.is_empty(), "{:#?}", problems);
	Ok(())
}

#[test]
fn probe_account_key_path() {
	let test_dir = "test_output/probe_account_key_path";
	setup(test_dir);
	if let Err(e) = probe_impl(test_dir) {
		panic!("Libwallet Error: {}", e);
	}
	clean_output_dir(test_dir);
}
