//! probe: change split for tiny change amounts
#[macro_use]
extern crate log;
extern crate grin_wallet_controller as wallet;
extern crate grin_wallet_impls as impls;

use grin_core as core;
use grin_wallet_libwallet as libwallet;
use impls::test_framework::{self, LocalWalletClient};
use libwallet::{InitTxArgs, Slate};
use std::sync::atomic::Ordering;
use std::thread;
use std::time::Duration;

#[macro_use]
mod common;
use common::{clean_output_dir, create_wallet_proxy, setup};

fn probe_impl(test_dir: &'static str) -> Result<(), libwallet::Error> {
	let mut wallet_proxy = create_wallet_proxy(test_dir);
	let chain = wallet_proxy.chain.clone();
	let stopper = wallet_proxy.running.clone();
	create_wallet_and_add!(client1, wallet1, mask1_i, test_dir, "wallet1", None, &mut wallet_proxy, false);
	let mask1 = (&mask1_i).as_ref();
	create_wallet_and_add!(client2, wallet2, mask2_i, test_dir, "wallet2", None, &mut wallet_proxy, false);
	let _mask2 = (&mask2_i).as_ref();
	thread::spawn(move || {
		if let Err(e) = wallet_proxy.run() {
			error!("Wallet Proxy error: {}", e);
		}
	});
	let reward = core::consensus::REWARD;
	let _ = test_framework::award_blocks_to_wallet(&chain, wallet1.clone(), mask1, 6, false);
	for (change, n) in [(7u64, 4u32), (11, 4), (10, 3)].iter() {
		// one input (smallest first), 1 recipient output + n change outputs
		let fee = core::libtx::tx_fee(1, 1 + *n as usize, 1);
		let amount = reward - fee - change;
		let res = wallet::controller::owner_single_use(Some(wallet1.clone()), mask1, None, |api, m| {
			let args = InitTxArgs {
				src_acct_name: None,
				amount,
				minimum_confirmations: 2,
				max_outputs: 500,
				num_change_outputs: *n,
				selection_strategy_is_use_all: false,
				..Default::default()
			};
			let slate = api.init_send_tx(m, args)?;
			let ctx_sum: u64 = 0;
			let _ = ctx_sum;
			let slate2 = client1.send_tx_slate_direct("wallet2", &slate)?;
			api.tx_lock_outputs(m, &slate2)?;
			let fin = api.finalize_tx(m, &slate2);
			println!("PROBE change={} n={} fee={} finalize -> {:?}", change, n, fee, fin.as_ref().map(|s: &Slate| s.state.clone()).map_err(|e| format!("{}", e)));
			let (_, txs) = api.retrieve_txs(m, false, None, Some(slate.id), None)?;
			let t = &txs[0];
			println!("PROBE   log entry: debited={} credited={} fee={:?} (amount {}): debited - credited - amount - fee = {}", t.amount_debited, t.amount_credited, t.fee.map(|f| f.fee()), amount, t.amount_debited as i128 - t.amount_credited as i128 - amount as i128 - fee as i128);
			if fin.is_err() {
				api.cancel_tx(m, None, Some(slate.id))?;
			} else {
				api.post_tx(m, &fin.unwrap(), false)?;
			}
			Ok(())
		});
		println!("PROBE change={} n={} overall -> {:?}", change, n, res.map_err(|e| format!("{}", e)));
		let _ = test_framework::award_blocks_to_wallet(&chain, wallet1.clone(), mask1, 3, false);
	}
	stopper.store(false, Ordering::Relaxed);
	thread::sleep(Duration::from_millis(200));
	Ok(())
}

#[test]
fn probe_change_split() {
	let test_dir = "test_output/probe_change_split";
	setup(test_dir);
	if let Err(e) = probe_impl(test_dir) {
		panic!("Libwallet Error: {}", e);
	}
	clean_output_dir(test_dir);
}
