//! probe: late-locked send from a non-active source account
#[macro_use]
extern crate log;
extern crate grin_wallet_controller as wallet;
extern crate grin_wallet_impls as impls;

use grin_core as core;
use grin_wallet_libwallet as libwallet;
use impls::test_framework::{self, LocalWalletClient};
use libwallet::{InitTxArgs, OutputStatus};
use std::sync::atomic::Ordering;
use std::thread;
use std::time::Duration;

#[macro_use]
mod common;
use common::{clean_output_dir, create_wallet_proxy, setup};

fn probe_impl(test_dir: &'static str) -> Result<(), libwallet::Error> {
	let mut wallet_proxy = create_wallet_proxy(test_dir);
	let chain = wallet_proxy.chain.clone();
	let stopper = wallet_proxy.running.clone();
	create_wallet_and_add!(client1, wallet1, mask1_i, test_dir, "wallet1", None, &mut wallet_proxy, false);
	let mask1 = (&mask1_i).as_ref();
	create_wallet_and_add!(client2, wallet2, mask2_i, test_dir, "wallet2", None, &mut wallet_proxy, false);
	let _mask2 = (&mask2_i).as_ref();
	thread::spawn(move || {
		if let Err(e) = wallet_proxy.run() {
			error!("Wallet Proxy error: {}", e);
		}
	});
	let reward = core::consensus::REWARD;
	// account "savings" in wallet1; mine 5 blocks into default, then 5 into savings
	wallet::controller::owner_single_use(Some(wallet1.clone()), mask1, None, |api, m| {
		api.create_account_path(m, "savings")?;
		Ok(())
	})?;
	let _ = test_framework::award_blocks_to_wallet(&chain, wallet1.clone(), mask1, 5, false);
	{
		wallet_inst!(wallet1, w);
		w.set_parent_key_id_by_name("savings")?;
	}
	let _ = test_framework::award_blocks_to_wallet(&chain, wallet1.clone(), mask1, 8, false);
	{
		wallet_inst!(wallet1, w);
		w.set_parent_key_id_by_name("default")?;
	}
	// active account = default; late-locked send FROM savings
	wallet::controller::owner_single_use(Some(wallet1.clone()), mask1, None, |api, m| {
		for acct in ["savings", "default"].iter() {
			api.set_active_account(m, acct)?;
			let (_, info) = api.retrieve_summary_info(m, true, 1)?;
			println!("PROBE before: account {:8} spendable {}", acct, info.amount_currently_spendable);
		}
		let args = InitTxArgs {
			src_acct_name: Some("savings".to_owned()),
			amount: reward / 2,
			minimum_confirmations: 2,
			max_outputs: 500,
			num_change_outputs: 1,
			selection_strategy_is_use_all: false,
			late_lock: Some(true),
			..Default::default()
		};
		let slate = api.init_send_tx(m, args)?;
		let slate2 = client1.send_tx_slate_direct("wallet2", &slate)?;
		let fin = api.finalize_tx(m, &slate2);
		println!("PROBE finalize -> {:?}", fin.as_ref().map(|s| s.state.clone()).map_err(|e| format!("{}", e)));
		for acct in ["default", "savings"].iter() {
			api.set_active_account(m, acct)?;
			let (_, outs) = api.retrieve_outputs(m, false, false, None)?;
			let locked: Vec<_> = outs.iter().filter(|o| o.output.status == OutputStatus::Locked).map(|o| o.output.value).collect();
			let unconf: Vec<_> = outs.iter().filter(|o| o.output.status == OutputStatus::Unconfirmed && !o.output.is_coinbase).map(|o| o.output.value).collect();
			let (_, txs) = api.retrieve_txs(m, false, None, Some(slate.id), None)?;
			println!("PROBE account {:8}: locked inputs {:?}, unconfirmed change {:?}, log entries for the slate: {}", acct, locked, unconf, txs.len());
		}
		api.set_active_account(m, "default")?;
		Ok(())
	})?;
	stopper.store(false, Ordering::Relaxed);
	thread::sleep(Duration::from_millis(200));
	Ok(())
}

#[test]
fn probe_late_lock_account() {
	let test_dir = "test_output/probe_late_lock_account";
	setup(test_dir);
	if let Err(e) = probe_impl(test_dir) {
		panic!("Libwallet Error: {}", e);
	}
	clean_output_dir(test_dir);
}
