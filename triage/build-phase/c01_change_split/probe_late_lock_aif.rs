//! probe: late-locked send from a non-active source account
#[macro_use]
extern crate log;
extern crate grin_wallet_controller as wallet;
extern crate grin_wallet_impls as impls;

use grin_core as core;
use grin_wallet_libwallet as libwallet;
use impls::test_framework::{self, LocalWalletClient};
use libwallet::InitTxArgs;
use std::sync::atomic::Ordering;
use std::thread;
use std::time::Duration;

#[macro_use]
mod common;
use common::{clean_output_dir, create_wallet_proxy, setup};

fn probe_impl(test_dir: &'static str) -> Result<(), libwallet::Error> {
	let mut wallet_proxy = create_wallet_proxy(test_dir);
	let chain = wallet_proxy.chain.clone();
	let stopper = wallet_proxy.running.clone();
	create_wallet_and_add!(client1, wallet1, mask1_i, test_dir, "wallet1", None, &mut wallet_proxy, false);
	let mask1 = (&mask1_i).as_ref();
	create_wallet_and_add!(client2, wallet2, mask2_i, test_dir, "wallet2", None, &mut wallet_proxy, false);
	let _mask2 = (&mask2_i).as_ref();
	thread::spawn(move || {
		if let Err(e) = wallet_proxy.run() {
			error!("Wallet Proxy error: {}", e);
		}
	});
	let reward = core::consensus::REWARD;
	// account "savings" in wallet1; mine 5 blocks into default, then 5 into savings
	wallet::controller::owner_single_use(Some(wallet1.clone()), mask1, None, |api, m| {
		api.create_account_path(m, "savings")?;
		Ok(())
	})?;
	let _ = test_framework::award_blocks_to_wallet(&chain, wallet1.clone(), mask1, 5, false);
	{
		wallet_inst!(wallet1, w);
		w.set_parent_key_id_by_name("savings")?;
	}
	let _ = test_framework::award_blocks_to_wallet(&chain, wallet1.clone(), mask1, 8, false);
	{
		wallet_inst!(wallet1, w);
		w.set_parent_key_id_by_name("default")?;
	}
	// late-locked send with amount_includes_fee = true, and the same without late lock as control
	for late in [true, false].iter() {
		wallet::controller::owner_single_use(Some(wallet1.clone()), mask1, None, |api, m| {
			let (_, info0) = api.retrieve_summary_info(m, true, 1)?;
			let args = InitTxArgs {
				src_acct_name: None,
				amount: reward / 2,
				amount_includes_fee: Some(true),
				minimum_confirmations: 2,
				max_outputs: 500,
				num_change_outputs: 1,
				selection_strategy_is_use_all: false,
				late_lock: Some(*late),
				..Default::default()
			};
			let slate = api.init_send_tx(m, args)?;
			println!("PROBE late_lock={} init: slate.amount={} fee={}", late, slate.amount, slate.fee_fields.fee());
			let slate2 = client1.send_tx_slate_direct("wallet2", &slate)?;
			if !*late {
				api.tx_lock_outputs(m, &slate2)?;
			}
			let fin = api.finalize_tx(m, &slate2)?;
			let (_, txs) = api.retrieve_txs(m, false, None, Some(slate.id), None)?;
			let t = &txs[0];
			let fee = t.fee.map(|f| f.fee()).unwrap_or(0);
			let sender_pays = t.amount_debited - t.amount_credited;
			println!("PROBE late_lock={} A={} fee={} : sender pays (debited - credited) = {}  => A + fee? {}  A? {}", late, reward / 2, fee, sender_pays, sender_pays == reward / 2 + fee, sender_pays == reward / 2);
			api.post_tx(m, &fin, false)?;
			let _ = info0;
			Ok(())
		})?;
		let _ = test_framework::award_blocks_to_wallet(&chain, wallet1.clone(), mask1, 3, false);
	}
	stopper.store(false, Ordering::Relaxed);
	thread::sleep(Duration::from_millis(200));
	Ok(())
}

#[test]
fn probe_late_lock_aif() {
	let test_dir = "test_output/probe_late_lock_aif";
	setup(test_dir);
	if let Err(e) = probe_impl(test_dir) {
		panic!("Libwallet Error: {}", e);
	}
	clean_output_dir(test_dir);
}
