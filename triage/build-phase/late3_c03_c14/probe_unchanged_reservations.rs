// Side-observation probes for property C03 on the UNCHANGED code.
// Intended location when run: controller/tests/probe_unchanged_reservations.rs
// Each test asserts what the property demands; a test that FAILS shows the unchanged code
// violating it.
#[macro_use]
extern crate log;
extern crate grin_wallet_controller as wallet;
extern crate grin_wallet_impls as impls;

use grin_util as util;
use grin_util::secp::key::SecretKey;

use grin_wallet_libwallet as libwallet;
use impls::test_framework::{self, LocalWalletClient};
use libwallet::{
	mwixnet::MixnetReqCreationParams, InitTxArgs, IssueInvoiceTxArgs, OutputStatus, Slate,
	TxLogEntryType,
};
use std::sync::atomic::Ordering;
use std::thread;
use std::time::Duration;

#[macro_use]
mod common;
use common::{clean_output_dir, create_wallet_proxy, setup};

/// A mwixnet swap request is built (and its input 'locked') on an output that a pending send
/// has already reserved.
fn mwixnet_on_reserved_impl(test_dir: &'static str) -> Result<(), libwallet::Error> {
	let mut wallet_proxy = create_wallet_proxy(test_dir);
	let chain = wallet_proxy.chain.clone();
	let stopper = wallet_proxy.running.clone();
	create_wallet_and_add!(
		client1,
		wallet1,
		mask1_i,
		test_dir,
		"wallet1",
		None,
		&mut wallet_proxy,
		true
	);
	let mask1 = (&mask1_i).as_ref();
	let _ = &client1;
	thread::spawn(move || {
		if let Err(e) = wallet_proxy.run() {
			error!("Wallet Proxy error: {}", e);
		}
	});
	let reward = grin_core::consensus::REWARD;
	let _ = test_framework::award_blocks_to_wallet(&chain, wallet1.clone(), mask1, 6, false);

	let mut swap_res = None;
	wallet::controller::owner_single_use(Some(wallet1.clone()), mask1, None, |api, m| {
		// a pending send reserves one output
		let args = InitTxArgs {
			src_acct_name: None,
			amount: reward / 2,
			minimum_confirmations: 2,
			max_outputs: 500,
			num_change_outputs: 1,
			selection_strategy_is_use_all: false,
			..Default::default()
		};
		let slate = api.init_send_tx(m, args)?;
		api.tx_lock_outputs(m, &slate)?;
		let (_, outputs) = api.retrieve_outputs(m, false, false, None)?;
		let reserved = outputs
			.iter()
			.find(|o| o.output.status == OutputStatus::Locked)
			.expect("a reserved output")
			.clone();
		println!(
			"output {:?} is reserved by log entry {:?}",
			reserved.commit, reserved.output.tx_log_entry
		);

		let secp_locked = util::static_secp_instance();
		let secp = secp_locked.lock();
		let keys: Vec<SecretKey> = [
			"97444ae673bb92c713c1a2f7b8882ffbfc1c67401a280a775dce1a8651584332",
			"0c9414341f2140ed34a5a12a6479bf5a6404820d001ab81d9d3e8cc38f049b4e",
		]
		.iter()
		.map(|k| SecretKey::from_slice(&secp, &grin_util::from_hex(k).unwrap()).unwrap())
		.collect();
		let params = MixnetReqCreationParams {
			server_keys: keys,
			fee_per_hop: 50_000_000,
		};
		let r = api.create_mwixnet_req(m, &params, &reserved.commit, true);
		println!(
			"swap request on the reserved output: {}",
			if r.is_ok() { "built" } else { "refused" }
		);
		swap_res = Some(r.is_ok());
		Ok(())
	})?;
	stopper.store(false, Ordering::Relaxed);
	thread::sleep(Duration::from_millis(200));
	assert_eq!(
		swap_res,
		Some(false),
		"a swap spending an output reserved by a pending send was built"
	);
	Ok(())
}

#[test]
fn probe_mwixnet_on_reserved_output() -> Result<(), libwallet::Error> {
	let test_dir = "test_output/probe_mwixnet_on_reserved";
	setup(test_dir);
	mwixnet_on_reserved_impl(test_dir)?;
	clean_output_dir(test_dir);
	Ok(())
}

/// A wallet invoices itself (account 'listener'), pays from account 'mining' and finalizes.
/// The same invoice slate is then delivered to process_invoice_tx again, naming account
/// 'savings': the invoicer's finalize has deleted the shared context, and the look-up of an
/// earlier payment is per account.
fn self_invoice_twice_impl(test_dir: &'static str) -> Result<(), libwallet::Error> {
	let mut wallet_proxy = create_wallet_proxy(test_dir);
	let chain = wallet_proxy.chain.clone();
	let stopper = wallet_proxy.running.clone();
	create_wallet_and_add!(
		client1,
		wallet1,
		mask1_i,
		test_dir,
		"wallet1",
		None,
		&mut wallet_proxy,
		true
	);
	let mask1 = (&mask1_i).as_ref();
	let _ = &client1;
	thread::spawn(move || {
		if let Err(e) = wallet_proxy.run() {
			error!("Wallet Proxy error: {}", e);
		}
	});
	let reward = grin_core::consensus::REWARD;
	wallet::controller::owner_single_use(Some(wallet1.clone()), mask1, None, |api, m| {
		api.create_account_path(m, "mining")?;
		api.create_account_path(m, "savings")?;
		api.create_account_path(m, "listener")?;
		api.set_active_account(m, "mining")?;
		Ok(())
	})?;
	let _ = test_framework::award_blocks_to_wallet(&chain, wallet1.clone(), mask1, 6, false);
	wallet::controller::owner_single_use(Some(wallet1.clone()), mask1, None, |api, m| {
		api.set_active_account(m, "savings")?;
		Ok(())
	})?;
	let _ = test_framework::award_blocks_to_wallet(&chain, wallet1.clone(), mask1, 6, false);
	wallet::controller::owner_single_use(Some(wallet1.clone()), mask1, None, |api, m| {
		api.set_active_account(m, "default")?;
		Ok(())
	})?;

	let mut invoice = Slate::blank(2, true);
	let args = InitTxArgs {
		src_acct_name: Some("mining".to_owned()),
		amount: reward / 2,
		minimum_confirmations: 2,
		max_outputs: 500,
		num_change_outputs: 1,
		selection_strategy_is_use_all: false,
		..Default::default()
	};
	wallet::controller::owner_single_use(Some(wallet1.clone()), mask1, None, |api, m| {
		invoice = api.issue_invoice_tx(
			m,
			IssueInvoiceTxArgs {
				dest_acct_name: Some("listener".to_owned()),
				amount: reward / 2,
				..Default::default()
			},
		)?;
		let paid = api.process_invoice_tx(m, &invoice, args.clone())?;
		api.tx_lock_outputs(m, &paid)?;
		// before the invoicer's finalize a repeat is refused, whichever account is named
		let mut a2 = args.clone();
		a2.src_acct_name = Some("savings".to_owned());
		assert!(api.process_invoice_tx(m, &invoice, a2).is_err());
		let done = api.finalize_tx(m, &paid)?;
		api.post_tx(m, &done, false)?;
		Ok(())
	})?;

	let mut second = None;
	let mut sent_entries = 0;
	wallet::controller::owner_single_use(Some(wallet1.clone()), mask1, None, |api, m| {
		let mut a2 = args.clone();
		a2.src_acct_name = Some("savings".to_owned());
		let r = api.process_invoice_tx(m, &invoice, a2);
		println!(
			"second delivery of the paid invoice, naming 'savings': {:?}",
			r.as_ref().map(|s| s.state.clone())
		);
		if let Ok(ref s) = r {
			println!("  tx_lock_outputs: {:?}", api.tx_lock_outputs(m, s));
		}
		second = Some(r.is_ok());
		for acct in &["mining", "savings"] {
			api.set_active_account(m, acct)?;
			let (_, txs) = api.retrieve_txs(m, false, None, Some(invoice.id), None)?;
			for t in txs {
				println!("  {}: log entry {} {:?}", acct, t.id, t.tx_type);
				if t.tx_type == TxLogEntryType::TxSent {
					sent_entries += 1;
				}
			}
		}
		Ok(())
	})?;
	stopper.store(false, Ordering::Relaxed);
	thread::sleep(Duration::from_millis(200));
	assert_eq!(second, Some(false), "the invoice was paid a second time");
	assert_eq!(sent_entries, 1);
	Ok(())
}

#[test]
fn probe_self_invoice_paid_twice() -> Result<(), libwallet::Error> {
	let test_dir = "test_output/probe_self_invoice_twice";
	setup(test_dir);
	self_invoice_twice_impl(test_dir)?;
	clean_output_dir(test_dir);
	Ok(())
}
