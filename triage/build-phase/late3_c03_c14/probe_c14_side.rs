// Probe for behaviour of the UNCHANGED code (not part of the seeded change).
// To run: copy to controller/tests/c14_side_probe.rs and
//   cargo test --offline -p grin_wallet_controller --test c14_side_probe -- --nocapture --test-threads 1
// Every assertion states what the unchanged code does today; the comments say why that is
// at odds with "a masked wallet does nothing without the right token".
#[macro_use]
extern crate log;
extern crate grin_wallet_api as api;
extern crate grin_wallet_controller as wallet;
extern crate grin_wallet_impls as impls;
extern crate grin_wallet_libwallet as libwallet;

use grin_util as util;

use impls::test_framework::{self, LocalWalletClient};
use std::sync::atomic::Ordering;
use std::thread;
use std::time::Duration;
use util::secp::key::SecretKey;
use util::ZeroingString;

mod common;
use common::{clean_output_dir, create_wallet_proxy, setup, setup_global_chain_type};

fn flip_last_bit(k: &SecretKey) -> SecretKey {
	let mut w = k.clone();
	w.0[31] ^= 1;
	w
}

fn probe(test_dir: &'static str) -> Result<(), libwallet::Error> {
	let mut wallet_proxy = create_wallet_proxy(test_dir);
	let chain = wallet_proxy.chain.clone();
	let stopper = wallet_proxy.running.clone();
	create_wallet_and_add!(
		client1,
		wallet1,
		mask1_i,
		test_dir,
		"wallet1",
		None,
		&mut wallet_proxy,
		true
	);
	let _ = &client1;
	let mask1 = (&mask1_i).as_ref();
	thread::spawn(move || {
		if let Err(e) = wallet_proxy.run() {
			error!("Wallet Proxy error: {}", e);
		}
	});
	let _ = test_framework::award_blocks_to_wallet(&chain, wallet1.clone(), mask1, 5, false);

	let wrong_i = flip_last_bit(mask1.unwrap());
	let wrong = Some(&wrong_i);
	let owner_api = api::Owner::new(wallet1.clone(), None);

	// sanity: the wrong token is refused where a check exists
	match owner_api.accounts(wrong) {
		Err(libwallet::Error::InvalidKeychainMask) => {}
		other => panic!("accounts(wrong): {:?}", other),
	}
	let (refreshed, info0) = owner_api.retrieve_summary_info(mask1, true, 1)?;
	assert!(refreshed);

	// (A) no refresh requested: the tx log and the balances are handed out to any token
	let r = owner_api.retrieve_txs(wrong, false, None, None, None);
	println!("A1 retrieve_txs(wrong token, no refresh) -> ok={}", r.is_ok());
	assert!(r.is_ok());
	let r = owner_api.retrieve_txs(None, false, None, None, None);
	println!("A2 retrieve_txs(no token, no refresh) -> ok={}", r.is_ok());
	assert!(r.is_ok());
	let r = owner_api.retrieve_summary_info(wrong, false, 1);
	println!("A3 retrieve_summary_info(wrong token, no refresh) -> ok={}", r.is_ok());
	assert!(r.is_ok());

	// (B) an existing label is reported before the token is looked at
	let r = owner_api.create_account_path(wrong, "default");
	println!("B create_account_path(wrong token, existing label) -> {:?}", r);
	match r {
		Err(libwallet::Error::AccountLabelAlreadyExists(_)) => {}
		other => panic!("unexpected: {:?}", other),
	}

	// (C) ordinary history: updater started, wallet closed, wallet opened again.
	// The updater thread keeps the first session's token, dies on its first refresh of the
	// second session and leaves `updater_running` set: from then on every retrieve_* call has
	// its refresh silently switched off, so (1) the right token no longer gives what an
	// unmasked wallet gives (there the updater simply carries on), and (2) the only token
	// check these calls have (inside the refresh) is gone, a wrong token is served too.
	owner_api.start_updater(mask1, Duration::from_secs(1))?;
	thread::sleep(Duration::from_secs(3));
	owner_api.close_wallet(None)?;
	let mask2_i = owner_api.open_wallet(None, ZeroingString::from(""), true)?;
	let mask2 = (&mask2_i).as_ref();
	assert!(mask2.is_some() && mask2_i != mask1_i);
	thread::sleep(Duration::from_secs(3));
	let _ = test_framework::award_blocks_to_wallet(&chain, wallet1.clone(), mask2, 3, false);
	thread::sleep(Duration::from_secs(3));
	let (refreshed, info1) = owner_api.retrieve_summary_info(mask2, true, 1)?;
	println!(
		"C1 retrieve_summary_info(right token, refresh=true) -> refreshed={} height {} (was {}), chain is 3 blocks further",
		refreshed, info1.last_confirmed_height, info0.last_confirmed_height
	);
	assert!(!refreshed);
	assert_eq!(info1.last_confirmed_height, info0.last_confirmed_height);
	let r = owner_api.retrieve_summary_info(wrong, true, 1);
	println!("C2 retrieve_summary_info(wrong token, refresh=true) -> ok={}", r.is_ok());
	assert!(r.is_ok());
	let r = owner_api.retrieve_txs(None, true, None, None, None);
	println!("C3 retrieve_txs(no token, refresh=true) -> ok={}", r.is_ok());
	assert!(r.is_ok());
	// stop_updater clears the flag, the wallet refreshes again
	owner_api.stop_updater()?;
	let (refreshed, info2) = owner_api.retrieve_summary_info(mask2, true, 1)?;
	println!(
		"C4 after stop_updater: refreshed={} height {}",
		refreshed, info2.last_confirmed_height
	);
	assert!(refreshed);
	assert_eq!(info2.last_confirmed_height, info0.last_confirmed_height + 3);

	stopper.store(false, Ordering::Relaxed);
	thread::sleep(Duration::from_secs(1));
	Ok(())
}

#[test]
fn c14_side_probe() {
	setup_global_chain_type();
	let test_dir = "test_output/c14_side_probe";
	setup(test_dir);
	if let Err(e) = probe(test_dir) {
		panic!("Libwallet Error: {}", e);
	}
	clean_output_dir(test_dir);
}
