// Side-observation probe for property C03 on the UNCHANGED code (harness copied from
// controller/tests/revert.rs). Intended location when run:
// controller/tests/probe_rereceive_reverted.rs
// The test asserts what the property demands; it FAILS if the unchanged code violates it.
// Copyright 2021 The Grin Developers
//
// Licensed under the Apache License, Version 2.0 (the "License");
// you may not use this file except in compliance with the License.
// You may obtain a copy of the License at
//
//     http://www.apache.org/licenses/LICENSE-2.0
//
// Unless required by applicable law or agreed to in writing, software
// distributed under the License is distributed on an "AS IS" BASIS,
// WITHOUT WARRANTIES OR CONDITIONS OF ANY KIND, either express or implied.
// See the License for the specific language governing permissions and
// limitations under the License.

#[macro_use]
mod common;

use common::{clean_output_dir, create_wallet_proxy, setup};
use grin_chain as chain;
use grin_core as core;
use grin_core::core::hash::Hashed;
use grin_core::core::Transaction;
use grin_core::global;
use grin_keychain::ExtKeychain;
use grin_util::secp::key::SecretKey;
use grin_util::Mutex;
use grin_wallet_controller::controller::owner_single_use as owner;
use grin_wallet_impls::test_framework::*;
use grin_wallet_impls::{DefaultLCProvider, PathToSlate, SlatePutter};
use grin_wallet_libwallet as libwallet;
use grin_wallet_libwallet::api_impl::types::InitTxArgs;
use grin_wallet_libwallet::WalletInst;
use log::error;
use std::sync::atomic::{AtomicBool, Ordering};
use std::sync::Arc;
use std::thread;
use std::time::Duration;
use grin_wallet_controller::controller::foreign_single_use as foreign;

type Wallet = Arc<
	Mutex<
		Box<
			dyn WalletInst<
				'static,
				DefaultLCProvider<'static, LocalWalletClient, ExtKeychain>,
				LocalWalletClient,
				ExtKeychain,
			>,
		>,
	>,
>;

fn revert(
	test_dir: &'static str,
) -> Result<
	(
		Arc<chain::Chain>,
		Arc<AtomicBool>,
		u64,
		u64,
		Transaction,
		libwallet::Slate,
		Wallet,
		Option<SecretKey>,
		Wallet,
		Option<SecretKey>,
	),
	libwallet::Error,
> {
	let mut wallet_proxy = create_wallet_proxy(test_dir);
	let stopper = wallet_proxy.running.clone();
	let chain = wallet_proxy.chain.clone();
	let test_dir2 = format!("{}/chain2", test_dir);
	let wallet_proxy2 = create_wallet_proxy(&test_dir2);
	let chain2 = wallet_proxy2.chain.clone();
	let stopper2 = wallet_proxy2.running.clone();

	create_wallet_and_add!(
		client1,
		wallet1,
		mask1_i,
		test_dir,
		"wallet1",
		None,
		&mut wallet_proxy,
		false
	);
	let mask1 = mask1_i.as_ref();

	create_wallet_and_add!(
		client2,
		wallet2,
		mask2_i,
		test_dir,
		"wallet2",
		None,
		&mut wallet_proxy,
		false
	);
	let mask2 = mask2_i.as_ref();

	// Set the wallet proxy listener running
	std::thread::spawn(move || {
		if let Err(e) = wallet_proxy.run() {
			error!("Wallet Proxy error: {}", e);
		}
	});

	owner(Some(wallet1.clone()), mask1, None, |api, m| {
		api.create_account_path(m, "a")?;
		api.set_active_account(m, "a")?;
		Ok(())
	})?;

	owner(Some(wallet2.clone()), mask2, None, |api, m| {
		api.create_account_path(m, "b")?;
		api.set_active_account(m, "b")?;
		Ok(())
	})?;

	let reward = core::consensus::REWARD;
	let cm = global::coinbase_maturity() as u64;
	let sent = reward * 2;

	// Mine some blocks
	let bh = 10u64;
	award_blocks_to_wallet(&chain, wallet1.clone(), mask1, bh as usize, false)?;

	// Sanity check contents
	owner(Some(wallet1.clone()), mask1, None, |api, m| {
		let (refreshed, info) = api.retrieve_summary_info(m, true, 1)?;
		assert!(refreshed);
		assert_eq!(info.last_confirmed_height, bh);
		assert_eq!(info.total, bh * reward);
		assert_eq!(info.amount_currently_spendable, (bh - cm) * reward);
		assert_eq!(info.amount_reverted, 0);
		// check tx log as well
		let (_, txs) = api.retrieve_txs(m, true, None, None, None)?;
		let (c, _) = libwallet::TxLogEntry::sum_confirmed(&txs);
		assert_eq!(info.total, c);
		assert_eq!(txs.len(), bh as usize);
		Ok(())
	})?;

	owner(Some(wallet2.clone()), mask2, None, |api, m| {
		let (refreshed, info) = api.retrieve_summary_info(m, true, 1)?;
		assert!(refreshed);
		assert_eq!(info.last_confirmed_height, bh);
		assert_eq!(info.total, 0);
		assert_eq!(info.amount_currently_spendable, 0);
		assert_eq!(info.amount_reverted, 0);
		// check tx log as well
		let (_, txs) = api.retrieve_txs(m, true, None, None, None)?;
		assert_eq!(txs.len(), 0);
		Ok(())
	})?;

	// Send some funds
	let mut tx = None;
	let mut first_slate = None;
	owner(Some(wallet1.clone()), mask1, None, |api, m| {
		// send to send
		let args = InitTxArgs {
			src_acct_name: None,
			amount: sent,
			minimum_confirmations: cm,
			max_outputs: 500,
			num_change_outputs: 1,
			selection_strategy_is_use_all: false,
			..Default::default()
		};
		let slate = api.init_send_tx(m, args)?;
		// output tx file
		let send_file = format!("{}/part_tx_1.tx", test_dir);
		PathToSlate(send_file.into()).put_tx(&slate, false)?;
		api.tx_lock_outputs(m, &slate)?;
		first_slate = Some(slate.clone());
		let slate = client1.send_tx_slate_direct("wallet2", &slate)?;
		let slate = api.finalize_tx(m, &slate)?;
		tx = slate.tx;

		Ok(())
	})?;
	let tx = tx.expect("tx from slate");

	// Check funds have been received
	owner(Some(wallet2.clone()), mask2, None, |api, m| {
		let (refreshed, info) = api.retrieve_summary_info(m, true, 1)?;
		assert!(refreshed);
		assert_eq!(info.last_confirmed_height, bh);
		assert_eq!(info.total, 0);
		assert_eq!(info.amount_currently_spendable, 0);
		assert_eq!(info.amount_reverted, 0);
		// check tx log as well
		let (_, txs) = api.retrieve_txs(m, true, None, None, None)?;
		assert_eq!(txs.len(), 1);
		let tx = &txs[0];
		assert_eq!(tx.tx_type, libwallet::TxLogEntryType::TxReceived);
		assert!(!tx.confirmed);
		Ok(())
	})?;

	// Update parallel chain
	assert_eq!(chain2.head_header().unwrap().height, 0);
	for i in 0..bh {
		let hash = chain.get_header_by_height(i + 1).unwrap().hash();
		let block = chain.get_block(&hash).unwrap();
		process_block(&chain2, block);
	}
	assert_eq!(chain2.head_header().unwrap().height, bh);

	// Build 2 blocks at same height: 1 with the tx, 1 without
	let head = chain.head_header().unwrap();
	let block_with =
		create_block_for_wallet(&chain, head.clone(), &[tx.clone()], wallet1.clone(), mask1)?;
	let block_without = create_block_for_wallet(&chain, head, &[], wallet1.clone(), mask1)?;

	// Add block with tx to the chain
	process_block(&chain, block_with.clone());
	assert_eq!(chain.head_header().unwrap(), block_with.header);

	// Add block without tx to the parallel chain
	process_block(&chain2, block_without.clone());
	assert_eq!(chain2.head_header().unwrap(), block_without.header);

	let bh = bh + 1;

	// Check funds have been confirmed
	owner(Some(wallet2.clone()), mask2, None, |api, m| {
		let (refreshed, info) = api.retrieve_summary_info(m, true, 1)?;
		assert!(refreshed);
		assert_eq!(info.last_confirmed_height, bh);
		assert_eq!(info.total, sent);
		assert_eq!(info.amount_currently_spendable, sent);
		assert_eq!(info.amount_reverted, 0);
		// check tx log as well
		let (_, txs) = api.retrieve_txs(m, true, None, None, None)?;
		assert_eq!(txs.len(), 1);
		let tx = &txs[0];
		assert_eq!(tx.tx_type, libwallet::TxLogEntryType::TxReceived);
		assert!(tx.confirmed);
		assert!(tx.kernel_excess.is_some());
		assert!(tx.reverted_after.is_none());
		Ok(())
	})?;

	// Attach more blocks to the parallel chain, making it the longest one
	award_block_to_wallet(&chain2, &[], wallet1.clone(), mask1)?;
	assert_eq!(chain2.head_header().unwrap().height, bh + 1);
	let new_head = chain2
		.get_block(&chain2.head_header().unwrap().hash())
		.unwrap();

	// Input blocks from parallel chain to original chain, updating it as well
	// and effectively reverting the transaction
	process_block(&chain, block_without.clone()); // This shouldn't update the head
	assert_eq!(chain.head_header().unwrap(), block_with.header);
	process_block(&chain, new_head.clone()); // But this should!
	assert_eq!(chain.head_header().unwrap(), new_head.header);

	let bh = bh + 1;

	// Check funds have been reverted
	owner(Some(wallet2.clone()), mask2, None, |api, m| {
		api.scan(m, None, false)?;
		let (refreshed, info) = api.retrieve_summary_info(m, true, 1)?;
		assert!(refreshed);
		assert_eq!(info.last_confirmed_height, bh);
		assert_eq!(info.total, 0);
		assert_eq!(info.amount_currently_spendable, 0);
		assert_eq!(info.amount_reverted, sent);
		// check tx log as well
		let (_, txs) = api.retrieve_txs(m, true, None, None, None)?;
		assert_eq!(txs.len(), 1);
		let tx = &txs[0];
		assert_eq!(tx.tx_type, libwallet::TxLogEntryType::TxReverted);
		assert!(!tx.confirmed);
		assert!(tx.reverted_after.is_some());
		Ok(())
	})?;

	stopper2.store(false, Ordering::Relaxed);
	Ok((
		chain,
		stopper,
		sent,
		bh,
		tx,
		first_slate.unwrap(),
		wallet1,
		mask1_i,
		wallet2,
		mask2_i,
	))
}


/// The payment was received, confirmed, and then reorganised away (log entry TxReverted,
/// output Reverted). The sender's first slate is delivered to receive_tx once more.
fn rereceive_reverted_impl(test_dir: &'static str) -> Result<(), libwallet::Error> {
	let (_, stopper, _sent, _bh, _tx, first_slate, _w1, _m1, wallet2, mask2_i) = revert(test_dir)?;
	let mask2 = mask2_i.as_ref();

	let mut second = None;
	foreign(wallet2.clone(), mask2_i.clone(), |api| {
		let r = api.receive_tx(&first_slate, None, None);
		println!(
			"second delivery of the slate whose payment was reverted: {:?}",
			r.as_ref().map(|s| s.state.clone())
		);
		second = Some(r.is_ok());
		Ok(())
	})?;
	let mut n_entries = 0;
	let mut n_outputs = 0;
	owner(Some(wallet2.clone()), mask2, None, |api, m| {
		let (_, txs) = api.retrieve_txs(m, false, None, Some(first_slate.id), None)?;
		for t in &txs {
			println!("  log entry {} {:?} credited {}", t.id, t.tx_type, t.amount_credited);
		}
		n_entries = txs.len();
		let (_, outs) = api.retrieve_outputs(m, false, false, None)?;
		for o in &outs {
			println!("  output {} {:?} value {}", o.output.key_id, o.output.status, o.output.value);
		}
		n_outputs = outs.len();
		Ok(())
	})?;
	stopper.store(false, Ordering::Relaxed);
	thread::sleep(Duration::from_millis(500));
	assert_eq!(second, Some(false), "the same slate was received a second time");
	assert_eq!(n_entries, 1);
	assert_eq!(n_outputs, 1);
	Ok(())
}

#[test]
fn probe_rereceive_after_revert() {
	let test_dir = "test_output/probe_rereceive_reverted";
	setup(test_dir);
	if let Err(e) = rereceive_reverted_impl(test_dir) {
		panic!("Libwallet Error: {}", e);
	}
	clean_output_dir(test_dir);
}
