// PROBE on the UNCHANGED code (side observation, not the seeded defect).
// Intended location when run: controller/tests/probe_restore_receive_before_scan.rs
//
// A wallet restored from its seed hands out derivation path m/0/0/0 to the first
// output it builds when that happens BEFORE its first scan (receive_tx / build_coinbase /
// build_output do not update the wallet) - although an output on that path is on chain.
#[macro_use]
extern crate log;
extern crate grin_wallet_controller as wallet;
extern crate grin_wallet_impls as impls;

use grin_util as util;

use grin_wallet_libwallet as libwallet;
use impls::test_framework::{self, LocalWalletClient};
use libwallet::{InitTxArgs, Slate};
use std::sync::atomic::Ordering;
use std::thread;
use std::time::Duration;
use util::ZeroingString;

#[macro_use]
mod common;
use common::{clean_output_dir, create_wallet_proxy, setup};

fn probe_impl(test_dir: &'static str) -> Result<(), libwallet::Error> {
	let seed_phrase = "affair pistol cancel crush garment candy ancient flag work \
	                   market crush dry stand focus mutual weapon offer ceiling rival turn team spring \
	                   where swift";
	let seed_phrase = Some(ZeroingString::from(seed_phrase));
	let no_seed: Option<ZeroingString> = None;

	let mut wallet_proxy = create_wallet_proxy(test_dir);
	let chain = wallet_proxy.chain.clone();
	let stopper = wallet_proxy.running.clone();

	create_wallet_and_add!(
		c_orig,
		orig,
		orig_mask_i,
		test_dir,
		"orig",
		seed_phrase,
		&mut wallet_proxy,
		false
	);
	let orig_mask = (&orig_mask_i).as_ref();
	create_wallet_and_add!(
		c_miner,
		miner,
		miner_mask_i,
		test_dir,
		"miner",
		no_seed,
		&mut wallet_proxy,
		false
	);
	let miner_mask = (&miner_mask_i).as_ref();
	// the restore: same seed, fresh directory
	create_wallet_and_add!(
		c_rest,
		restored,
		rest_mask_i,
		test_dir,
		"restored",
		seed_phrase,
		&mut wallet_proxy,
		false
	);
	let rest_mask = (&rest_mask_i).as_ref();
	let _ = (&c_orig, &c_miner, &c_rest);

	thread::spawn(move || {
		if let Err(e) = wallet_proxy.run() {
			error!("Wallet Proxy error: {}", e);
		}
	});

	// outputs of the seed on chain: m/0/0/0 .. m/0/0/4
	let _ = test_framework::award_blocks_to_wallet(&chain, orig.clone(), orig_mask, 5, false);
	let _ = test_framework::award_blocks_to_wallet(&chain, miner.clone(), miner_mask, 6, false);

	let mut on_chain = vec![];
	wallet::controller::owner_single_use(Some(orig.clone()), orig_mask, None, |api, m| {
		let (_, outputs) = api.retrieve_outputs(m, false, true, None)?;
		for o in outputs {
			on_chain.push((o.output.key_id.clone(), o.commit));
		}
		Ok(())
	})?;
	assert_eq!(on_chain.len(), 5);

	// the restored wallet is paid before it has ever been updated
	let mut slate = Slate::blank(2, false);
	wallet::controller::owner_single_use(Some(miner.clone()), miner_mask, None, |api, m| {
		let args = InitTxArgs {
			src_acct_name: None,
			amount: 1_000_000_000,
			minimum_confirmations: 2,
			max_outputs: 500,
			num_change_outputs: 1,
			selection_strategy_is_use_all: false,
			..Default::default()
		};
		slate = api.init_send_tx(m, args)?;
		api.tx_lock_outputs(m, &slate)?;
		Ok(())
	})?;
	wallet::controller::foreign_single_use(restored.clone(), rest_mask_i.clone(), |api| {
		slate = api.receive_tx(&slate, None, None)?;
		Ok(())
	})?;
	wallet::controller::owner_single_use(Some(miner.clone()), miner_mask, None, |api, m| {
		slate = api.finalize_tx(m, &slate)?;
		api.post_tx(m, &slate, false)?;
		Ok(())
	})?;
	let _ = test_framework::award_blocks_to_wallet(&chain, miner.clone(), miner_mask, 3, false);

	// now the restore scan runs (first update of a wallet created from a mnemonic)
	let mut mine = vec![];
	wallet::controller::owner_single_use(Some(restored.clone()), rest_mask, None, |api, m| {
		let (refreshed, outputs) = api.retrieve_outputs(m, true, true, None)?;
		assert!(refreshed);
		for o in outputs {
			println!(
				"restored wallet: {} {:?} {:?} value {}",
				o.output.key_id, o.output.status, o.commit, o.output.value
			);
			mine.push((o.output.key_id.clone(), o.commit));
		}
		Ok(())
	})?;

	for (i, a) in mine.iter().enumerate() {
		for b in mine.iter().skip(i + 1) {
			assert!(
				a.0 != b.0 || a.1 == b.1,
				"derivation path {} is used for two different outputs: {:?} and {:?}",
				a.0,
				a.1,
				b.1
			);
		}
	}

	stopper.store(false, Ordering::Relaxed);
	thread::sleep(Duration::from_millis(200));
	Ok(())
}

#[test]
fn probe_restore_receive_before_scan() {
	let test_dir = "test_output/probe_restore_receive_before_scan";
	setup(test_dir);
	if let Err(e) = probe_impl(test_dir) {
		panic!("Libwallet Error: {}", e);
	}
	clean_output_dir(test_dir);
}
