// Demonstration for property C04 ("after refresh the wallet's books equal the
// chain's truth").
//
// History exercised (no cancellation, no re-org, everything is broadcast and mined):
//   1. wallet1 pays wallet2 (transaction R) - finalized, but not yet broadcast
//   2. wallet2 immediately re-spends the still unconfirmed output it got from R
//      (minimum_confirmations = 0) in a payment back to wallet1 (transaction S)
//   3. R is broadcast and mined, then S is broadcast and mined
//   4. wallet2 refreshes
// After step 4 the output received through R never shows up in the node's
// unspent set under wallet2's eyes (it is already spent by S), so the log entry
// for R can only be confirmed by looking up its kernel.
#[macro_use]
extern crate log;
extern crate grin_wallet_controller as wallet;
extern crate grin_wallet_impls as impls;

use grin_core as core;

use grin_wallet_libwallet as libwallet;
use impls::test_framework::{self, LocalWalletClient};
use libwallet::{InitTxArgs, NodeClient, OutputStatus, Slate, TxLogEntryType as _T};
use std::sync::atomic::Ordering;
use std::thread;
use std::time::Duration;

#[macro_use]
mod common;
use common::{clean_output_dir, create_wallet_proxy, setup};

/// Refreshes the wallet and checks its books against each other and against the node:
///  - every output recorded as unspent or locked is in the node's unspent set
///  - confirmed credits - confirmed debits == total + locked
macro_rules! check_books {
	($wallet:expr, $mask:expr, $client:expr, $label:expr) => {
		wallet::controller::owner_single_use(Some($wallet.clone()), $mask, None, |api, m| {
			let (refreshed, info) = api.retrieve_summary_info(m, true, 1)?;
			assert!(refreshed);
			let (_, txs) = api.retrieve_txs(m, false, None, None, None)?;
			let mut credits: u64 = 0;
			let mut debits: u64 = 0;
			for t in &txs {
				println!(
					"{} log entry {} {:?} confirmed={} credited={} debited={}",
					$label, t.id, t.tx_type, t.confirmed, t.amount_credited, t.amount_debited
				);
				if t.confirmed {
					credits += t.amount_credited;
					debits += t.amount_debited;
				}
			}
			let (_, outputs) = api.retrieve_outputs(m, false, false, None)?;
			let live: Vec<_> = outputs
				.iter()
				.filter(|o| {
					o.output.status == OutputStatus::Unspent
						|| o.output.status == OutputStatus::Locked
				})
				.collect();
			let on_chain = $client.get_outputs_from_node(live.iter().map(|o| o.commit).collect())?;
			for o in &live {
				assert!(
					on_chain.contains_key(&o.commit),
					"{}: output {} is {:?} in the wallet but not in the node's unspent set",
					$label,
					o.output.key_id,
					o.output.status
				);
			}
			let held: u64 = live.iter().map(|o| o.output.value).sum();
			println!(
				"{} total={} locked={} held={} credits={} debits={}",
				$label, info.total, info.amount_locked, held, credits, debits
			);
			assert_eq!(info.total + info.amount_locked, held);
			assert_eq!(
				credits as i128 - debits as i128,
				(info.total + info.amount_locked) as i128,
				"{}: confirmed credits minus confirmed debits differ from total + locked",
				$label
			);
			Ok(())
		})?;
	};
}

fn probe_a_impl(test_dir: &'static str) -> Result<(), libwallet::Error> {
	let mut wallet_proxy = create_wallet_proxy(test_dir);
	let chain = wallet_proxy.chain.clone();
	let stopper = wallet_proxy.running.clone();

	create_wallet_and_add!(
		client1,
		wallet1,
		mask1_i,
		test_dir,
		"wallet1",
		None,
		&mut wallet_proxy,
		false
	);
	let mask1 = (&mask1_i).as_ref();

	create_wallet_and_add!(
		client2,
		wallet2,
		mask2_i,
		test_dir,
		"wallet2",
		None,
		&mut wallet_proxy,
		false
	);
	let mask2 = (&mask2_i).as_ref();

	thread::spawn(move || {
		if let Err(e) = wallet_proxy.run() {
			error!("Wallet Proxy error: {}", e);
		}
	});

	let reward = core::consensus::REWARD;

	// Mine into wallet 1
	let _ = test_framework::award_blocks_to_wallet(&chain, wallet1.clone(), mask1, 8, false);

	
	// S1: wallet1 -> wallet2 with change, finalized, not yet broadcast
	let mut slate_1 = Slate::blank(2, false);
	wallet::controller::owner_single_use(Some(wallet1.clone()), mask1, None, |api, m| {
		let args = InitTxArgs {
			src_acct_name: None,
			amount: reward / 2,
			minimum_confirmations: 2,
			max_outputs: 500,
			num_change_outputs: 1,
			selection_strategy_is_use_all: true,
			..Default::default()
		};
		let slate = api.init_send_tx(m, args)?;
		let slate = client1.send_tx_slate_direct("wallet2", &slate)?;
		api.tx_lock_outputs(m, &slate)?;
		slate_1 = api.finalize_tx(m, &slate)?;
		Ok(())
	})?;
	// S2: wallet1 -> wallet2 again, min conf 0, re-spending the unconfirmed change of S1
	let mut slate_2 = Slate::blank(2, false);
	wallet::controller::owner_single_use(Some(wallet1.clone()), mask1, None, |api, m| {
		let args = InitTxArgs {
			src_acct_name: None,
			amount: reward / 2,
			minimum_confirmations: 0,
			max_outputs: 500,
			num_change_outputs: 1,
			selection_strategy_is_use_all: true,
			..Default::default()
		};
		let slate = api.init_send_tx(m, args)?;
		let slate = client1.send_tx_slate_direct("wallet2", &slate)?;
		api.tx_lock_outputs(m, &slate)?;
		slate_2 = api.finalize_tx(m, &slate)?;
		Ok(())
	})?;
	let h0 = chain.head().unwrap().height;
	wallet::controller::owner_single_use(Some(wallet2.clone()), mask2, None, |api, m| {
		api.post_tx(m, &slate_1, false)?;
		api.post_tx(m, &slate_2, false)?;
		Ok(())
	})?;
	assert_eq!(chain.head().unwrap().height, h0 + 2);
	let _ = test_framework::award_blocks_to_wallet(&chain, wallet2.clone(), mask2, 3, false);
	check_books!(wallet2, mask2, client2, "wallet2");
	check_books!(wallet1, mask1, client1, "wallet1");
	stopper.store(false, Ordering::Relaxed);
	thread::sleep(Duration::from_millis(200));
	Ok(())
}

#[test]
fn probe_a() {
	let test_dir = "test_output/probe_a";
	setup(test_dir);
	if let Err(e) = probe_a_impl(test_dir) {
		panic!("Libwallet Error: {}", e);
	}
	clean_output_dir(test_dir);
}
