// Probes of the UNCHANGED code (no patch applied). Each test asserts the behaviour that was
// observed, i.e. it PASSES when the questionable behaviour is present.
// To run: copy to controller/tests/side_probes.rs and
//   cargo test --offline -p grin_wallet_controller --test side_probes -- --nocapture --test-threads 1
#[macro_use]
extern crate log;
extern crate grin_wallet_controller as wallet;
extern crate grin_wallet_impls as impls;
extern crate grin_wallet_libwallet as libwallet;

use grin_core as core;
use grin_util as util;
use grin_util::secp::key::SecretKey;

use self::libwallet::{
	mwixnet::MixnetReqCreationParams, InitTxArgs, OutputStatus, Slate, TxLogEntryType,
};
use impls::test_framework::{self, LocalWalletClient};
use std::sync::atomic::Ordering;
use std::thread;
use std::time::Duration;

mod common;
use common::{clean_output_dir, create_wallet_proxy, setup};

/// SO1: the "already received" guard of foreign::receive_tx only looks at the destination
/// account, and the destination account name is chosen by whoever delivers the slate. The same
/// slate delivered a second time with another dest_acct_name is accepted: a second TxReceived
/// log entry and a second output for one slate.
fn so1_receive_replay_other_account(test_dir: &'static str) -> Result<(), libwallet::Error> {
	let mut wallet_proxy = create_wallet_proxy(test_dir);
	let chain = wallet_proxy.chain.clone();
	let stopper = wallet_proxy.running.clone();
	create_wallet_and_add!(
		client1,
		wallet1,
		mask1_i,
		test_dir,
		"wallet1",
		None,
		&mut wallet_proxy,
		false
	);
	let mask1 = (&mask1_i).as_ref();
	create_wallet_and_add!(
		client2,
		wallet2,
		mask2_i,
		test_dir,
		"wallet2",
		None,
		&mut wallet_proxy,
		false
	);
	let mask2 = (&mask2_i).as_ref();
	let _ = (&client1, &client2);
	thread::spawn(move || {
		if let Err(e) = wallet_proxy.run() {
			error!("Wallet Proxy error: {}", e);
		}
	});
	let reward = core::consensus::REWARD;
	test_framework::award_blocks_to_wallet(&chain, wallet1.clone(), mask1, 10, false)?;
	wallet::controller::owner_single_use(Some(wallet2.clone()), mask2, None, |api, m| {
		api.create_account_path(m, "second")?;
		Ok(())
	})?;

	let mut slate_1 = Slate::blank(2, false);
	wallet::controller::owner_single_use(Some(wallet1.clone()), mask1, None, |api, m| {
		let args = InitTxArgs {
			amount: reward,
			minimum_confirmations: 2,
			max_outputs: 500,
			num_change_outputs: 1,
			..Default::default()
		};
		slate_1 = api.init_send_tx(m, args)?;
		api.tx_lock_outputs(m, &slate_1)?;
		Ok(())
	})?;
	let mut second_delivery_accepted = false;
	wallet::controller::foreign_single_use(wallet2.clone(), mask2_i.clone(), |api| {
		api.receive_tx(&slate_1, None, None)?;
		// same account again: refused
		assert!(api.receive_tx(&slate_1, None, None).is_err());
		assert!(api.receive_tx(&slate_1, Some("default"), None).is_err());
		// another account: accepted
		second_delivery_accepted = api.receive_tx(&slate_1, Some("second"), None).is_ok();
		Ok(())
	})?;
	let mut entries = 0;
	let mut outputs = 0;
	for acct in &["default", "second"] {
		wallet::controller::owner_single_use(Some(wallet2.clone()), mask2, None, |api, m| {
			api.set_active_account(m, acct)?;
			let (_, txs) = api.retrieve_txs(m, false, None, Some(slate_1.id), None)?;
			entries += txs
				.iter()
				.filter(|t| t.tx_type == TxLogEntryType::TxReceived)
				.count();
			outputs += api.retrieve_outputs(m, true, false, None)?.1.len();
			Ok(())
		})?;
	}
	println!(
		"SO1: second delivery accepted: {}, TxReceived entries for the slate: {}, outputs: {}",
		second_delivery_accepted, entries, outputs
	);
	stopper.store(false, Ordering::Relaxed);
	thread::sleep(Duration::from_millis(200));
	assert!(
		!second_delivery_accepted && entries == 1 && outputs == 1,
		"the same slate was received twice: second delivery accepted {}, {} TxReceived entries, {} outputs",
		second_delivery_accepted,
		entries,
		outputs
	);
	Ok(())
}

#[test]
fn side_so1_receive_replay_other_account() {
	let test_dir = "test_output/side_so1";
	setup(test_dir);
	if let Err(e) = so1_receive_replay_other_account(test_dir) {
		panic!("Libwallet Error: {}", e);
	}
	clean_output_dir(test_dir);
}

