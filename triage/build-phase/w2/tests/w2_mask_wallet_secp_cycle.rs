// SUSPECT 3 (three-way): keychain-mask mutex -> wallet mutex -> static secp mutex -> mask
//
//   thread F : controller::foreign_listener(use_tor = true) -> init_tor_listener
//                 holds `keychain_mask.lock()`                 then wallet.lock()
//   thread W : Owner::retrieve_summary_info(refresh)  (any wallet operation that uses secp)
//                 holds the wallet mutex                       then static_secp_instance()
//   thread O : OwnerV3Helpers::update_mask (what OwnerAPIHandlerV3::call_api runs after an
//              `open_wallet` reply when running_foreign = true)
//                 holds the static secp mutex                  then mask.lock()
//
// IMPORTANT SCOPE NOTE (see notes.md): the cycle needs F and O to use the SAME
// Arc<Mutex<Option<SecretKey>>>.  This test passes one Arc to both, the way a library
// embedder following owner_listener's doc comment ("keychain mask is only provided here in
// case the foreign listener is also being used in the same wallet instance") would.  The
// shipped grin-wallet commands never do that (`listen` and `owner_api` each build their own
// private Arc), so this is a library-level demonstration only.
//
// Scheduling devices (test only): the test itself holds the mask mutex while F runs
// foreign_listener's "is the wallet open" pre-check, so that F stops exactly at
// `let mask = keychain_mask.lock();` (first statement of init_tor_listener) until W is
// parked inside its wallet-mutex section; W is parked with the node-client hook.
#[macro_use]
extern crate log;
extern crate grin_wallet_api as api;
extern crate grin_wallet_controller as wallet;
extern crate grin_wallet_impls as impls;

use grin_core as core;
use grin_keychain as keychain;
use grin_util as util;

use grin_wallet_libwallet as libwallet;
use impls::test_framework::{self, LocalWalletClient, WalletProxy};
use keychain::ExtKeychain;
use libwallet::OutputStatus;
use std::net::TcpStream;
use std::sync::atomic::Ordering;
use std::sync::mpsc::channel;
use std::sync::{Arc, Mutex as StdMutex};
use std::thread;
use std::time::{Duration, Instant};
use util::secp::key::SecretKey;
use util::Mutex;

use api::Owner;
use wallet::controller::OwnerV3Helpers;

#[macro_use]
mod common;
use common::setup;
mod w2_hooks;
use w2_hooks::{
	create_hook_wallet, dump_thread_stacks, install_fake_tor, mark, HookClient, HookLC,
};

// NB: grin_util::static_secp_instance() itself LOCKS the mutex before handing out the Arc:
// fetch the Arc once, up front, and only ever try_lock() it afterwards.
static SECP_ARC: std::sync::OnceLock<Arc<util::Mutex<util::secp::Secp256k1>>> =
	std::sync::OnceLock::new();

fn secp_is_locked() -> bool {
	let inst = SECP_ARC.get_or_init(util::static_secp_instance);
	let g = inst.try_lock();
	g.is_none()
}

/// true if `f` stays true for 100 ms (i.e. the lock is HELD, not just passed through)
fn wait_held(what: &str, f: &dyn Fn() -> bool) -> bool {
	let t0 = Instant::now();
	let mut since: Option<Instant> = None;
	loop {
		if f() {
			let s = *since.get_or_insert_with(Instant::now);
			if s.elapsed() > Duration::from_millis(100) {
				return true;
			}
		} else {
			since = None;
		}
		if t0.elapsed() > Duration::from_secs(10) {
			mark(&format!("gave up waiting for {} to be held", what));
			return false;
		}
		thread::sleep(Duration::from_millis(5));
	}
}

fn run(test_dir: &'static str, interleave: bool, port: u16) -> Result<(), libwallet::Error> {
	let tag = if interleave { "S3" } else { "S3-control" };
	assert!(!secp_is_locked());
	core::global::set_global_chain_type(core::global::ChainTypes::AutomatedTesting);

	let mut wallet_proxy: WalletProxy<HookLC, HookClient, ExtKeychain> = WalletProxy::new(test_dir);
	let chain = wallet_proxy.chain.clone();
	let stopper = wallet_proxy.running.clone();
	let client1 = HookClient::new(
		"wallet1",
		LocalWalletClient::new("wallet1", wallet_proxy.tx.clone()),
	);
	let (wallet1, mask1_i, inst_slot) = create_hook_wallet(test_dir, "wallet1", client1.clone());
	wallet_proxy.add_wallet(
		"wallet1",
		client1.inner.get_send_instance(),
		wallet1.clone(),
		mask1_i.clone(),
	);
	thread::spawn(move || {
		if let Err(e) = wallet_proxy.run() {
			error!("Wallet Proxy error: {}", e);
		}
	});
	let mask1 = (&mask1_i).as_ref();

	test_framework::award_blocks_to_wallet(&chain, wallet1.clone(), mask1, 5, false)?;
	wallet::controller::owner_single_use(Some(wallet1.clone()), mask1, None, |api, m| {
		let (refreshed, _) = api.retrieve_summary_info(m, true, 1)?;
		assert!(refreshed);
		Ok(())
	})?;
	// a fresh, still Unconfirmed coinbase => the next refresh takes the secp mutex in
	// apply_api_outputs while holding the wallet mutex
	test_framework::award_blocks_to_wallet(&chain, wallet1.clone(), mask1, 1, false)?;
	wallet::controller::owner_single_use(Some(wallet1.clone()), mask1, None, |api, m| {
		let (_, outputs) = api.retrieve_outputs(m, false, false, None)?;
		let n = outputs
			.iter()
			.filter(|o| o.output.is_coinbase && o.output.status == OutputStatus::Unconfirmed)
			.count();
		assert_eq!(n, 1);
		Ok(())
	})?;

	install_fake_tor(&format!("{}/fake_tor_bin", test_dir));

	// THE shared keychain-mask mutex (what command::owner_api calls `km`)
	let km: Arc<Mutex<Option<SecretKey>>> = Arc::new(Mutex::new(mask1_i.clone()));
	let owner = Arc::new(Owner::new(wallet1.clone(), None));
	let listen_addr = format!("127.0.0.1:{}", port);
	// an `open_wallet` reply as seen by OwnerAPIHandlerV3::call_api
	let open_wallet_reply = serde_json_value(&mask1_i);

	let (done_tx, done_rx) = channel::<&'static str>();

	let spawn_f = {
		let wallet1 = wallet1.clone();
		let km = km.clone();
		let listen_addr = listen_addr.clone();
		move || {
			thread::Builder::new()
				.name("F".into())
				.spawn(move || {
					core::global::set_local_chain_type(core::global::ChainTypes::AutomatedTesting);
					mark("calling controller::foreign_listener(use_tor = true)");
					let r = wallet::controller::foreign_listener(
						wallet1,
						km,
						&listen_addr,
						None,
						true,
						false,
						None,
					);
					mark(&format!("foreign_listener returned: {:?}", r.is_ok()));
				})
				.unwrap();
		}
	};
	let spawn_o = {
		let km = km.clone();
		let done_tx = done_tx.clone();
		let v = open_wallet_reply.clone();
		move || {
			thread::Builder::new()
				.name("O".into())
				.spawn(move || {
					mark("calling OwnerV3Helpers::update_mask(shared mask, <open_wallet reply>)");
					OwnerV3Helpers::update_mask(km, &v);
					mark("update_mask RETURNED");
					done_tx.send("O").unwrap();
				})
				.unwrap();
		}
	};
	let spawn_w = {
		let owner = owner.clone();
		let mask = mask1_i.clone();
		let done_tx = done_tx.clone();
		move || {
			thread::Builder::new()
				.name("W".into())
				.spawn(move || {
					core::global::set_local_chain_type(core::global::ChainTypes::AutomatedTesting);
					mark("calling Owner::retrieve_summary_info(refresh_from_node = true)");
					let res = owner.retrieve_summary_info((&mask).as_ref(), true, 1);
					mark(&format!(
						"retrieve_summary_info RETURNED: {}",
						match res {
							Ok((r, i)) => format!(
								"Ok(refreshed={}, last_confirmed_height={})",
								r, i.last_confirmed_height
							),
							Err(e) => format!("Err({})", e),
						}
					));
					done_tx.send("W").unwrap();
				})
				.unwrap();
		}
	};

	if !interleave {
		// control: the same three operations, one after the other
		spawn_f();
		let t0 = Instant::now();
		while TcpStream::connect(&listen_addr).is_err() {
			assert!(t0.elapsed() < Duration::from_secs(30), "listener not up");
			thread::sleep(Duration::from_millis(50));
		}
		mark("F: init_tor_listener finished, foreign listener is serving");
		spawn_o();
		assert_eq!(done_rx.recv_timeout(Duration::from_secs(20)), Ok("O"));
		spawn_w();
		assert_eq!(done_rx.recv_timeout(Duration::from_secs(20)), Ok("W"));
		println!("{}: all three operations completed - NO DEADLOCK in this schedule", tag);
		stopper.store(false, Ordering::Relaxed);
		thread::sleep(Duration::from_millis(300));
		return Ok(());
	}

	// ---- interleaved schedule
	// step 1: hold the mask mutex ourselves; start F; F passes foreign_listener's
	//         "wallet open?" pre-check (its first wallet-mutex section) and then stops at
	//         init_tor_listener's `keychain_mask.lock()`
	let km_guard = km.lock();
	let (f_checked_tx, f_checked_rx) = channel::<()>();
	let f_checked_tx = StdMutex::new(f_checked_tx);
	inst_slot.set(Box::new(move |t, _ev| {
		if t != "F" {
			return false;
		}
		f_checked_tx.lock().unwrap().send(()).unwrap();
		true
	}));
	spawn_f();
	f_checked_rx
		.recv_timeout(Duration::from_secs(10))
		.expect("F never entered its pre-check section");
	thread::sleep(Duration::from_millis(300));
	mark("main: F has done foreign_listener's pre-check and is now waiting at init_tor_listener's keychain_mask.lock() (mask is held by the test)");

	// step 2: W takes the wallet mutex and parks inside refresh_output_state
	let (w_parked_tx, w_parked_rx) = channel::<()>();
	let (mask_released_tx, mask_released_rx) = channel::<()>();
	let (start_o_tx, start_o_rx) = channel::<()>();
	{
		let wallet1_h = wallet1.clone();
		let km_h = km.clone();
		let w_parked_tx = StdMutex::new(w_parked_tx);
		let mask_released_rx = StdMutex::new(mask_released_rx);
		let start_o_tx = StdMutex::new(start_o_tx);
		client1.slot.set(Box::new(move |t, ev| {
			if t != "W" || ev != "get_outputs_from_node:post" {
				return false;
			}
			mark(&format!(
				"hook: W is inside refresh_output_state; wallet mutex locked = {}",
				wallet1_h.try_lock().is_none()
			));
			w_parked_tx.lock().unwrap().send(()).unwrap();
			mask_released_rx.lock().unwrap().recv().unwrap();
			// step 3 happened: test released the mask -> F takes it and runs into the wallet mutex
			if wait_held("mask mutex", &|| km_h.try_lock().is_none()) {
				mark("hook: mask mutex is now HELD (by F, in init_tor_listener); F must be waiting for the wallet mutex");
			}
			// step 4: O
			start_o_tx.lock().unwrap().send(()).unwrap();
			if wait_held("secp mutex", &secp_is_locked) {
				mark("hook: secp mutex is now HELD (by O, in update_mask); O must be waiting for the mask mutex");
			}
			mark("hook: W now continues into apply_api_outputs");
			true
		}));
	}
	spawn_w();
	w_parked_rx
		.recv_timeout(Duration::from_secs(10))
		.expect("W never parked");
	// step 3
	mark("main: releasing the mask mutex");
	drop(km_guard);
	mask_released_tx.send(()).unwrap();
	// step 4
	start_o_rx
		.recv_timeout(Duration::from_secs(15))
		.expect("no start signal for O");
	spawn_o();

	let mut pending = vec!["O", "W"];
	let deadline = Instant::now() + Duration::from_secs(20);
	while !pending.is_empty() {
		let left = deadline.saturating_duration_since(Instant::now());
		match done_rx.recv_timeout(left) {
			Ok(n) => pending.retain(|p| *p != n),
			Err(_) => break,
		}
	}
	let listener_up = TcpStream::connect(&listen_addr).is_ok();
	println!(
		"{}: after 20 s: not returned: {:?}; F's foreign listener serving = {}",
		tag, pending, listener_up
	);
	println!(
		"{}: probe: wallet mutex locked = {}, mask mutex locked = {}, secp mutex locked = {}",
		tag,
		wallet1.try_lock().is_none(),
		km.try_lock().is_none(),
		secp_is_locked()
	);
	dump_thread_stacks(&["F", "O", "W"]);
	if pending.len() == 2 && !listener_up {
		println!(
			"DEADLOCK CONFIRMED (library level, shared mask Arc): S3 three-way: F (init_tor_listener) holds mask, waits for wallet; W (refresh) holds wallet, waits for secp; O (update_mask) holds secp, waits for mask"
		);
		use std::io::Write;
		std::io::stdout().flush().unwrap();
		std::process::exit(0);
	}
	panic!("{}: expected three-way deadlock did not occur", tag);
}

/// {"result": {"Ok": "<hex of a secret key>"}} - the shape update_mask looks at
fn serde_json_value(mask: &Option<SecretKey>) -> serde_json::Value {
	use util::ToHex;
	let hex = match mask {
		Some(m) => m.0.to_hex(),
		None => "0101010101010101010101010101010101010101010101010101010101010101".to_owned(),
	};
	serde_json::json!({"id": 1, "jsonrpc": "2.0", "result": {"Ok": hex}})
}

#[test]
fn s3_a_control_sequential() {
	let test_dir = "test_output/w2_s3_control";
	setup(test_dir);
	if let Err(e) = run(test_dir, false, 43530) {
		panic!("Libwallet Error: {}", e);
	}
}

// runs last (alphabetical order, --test-threads 1) because it ends the process
#[test]
fn s3_b_three_way_deadlock() {
	let test_dir = "test_output/w2_s3";
	setup(test_dir);
	if let Err(e) = run(test_dir, true, 43532) {
		panic!("Libwallet Error: {}", e);
	}
}
