// SUSPECT 1: lock-order inversion between api::Owner.tor_config and the wallet mutex
// (Owner.wallet_inst).
//
//   thread A : Owner::init_send_tx(send_args = Some)      tor_config  -> wallet mutex
//              (tor_config guard is alive across try_slatepack_sync_workflow and the
//              following self.tx_lock_outputs / finalize_tx / post_tx)
//   thread B : Owner::process_invoice_tx(send_args = Some) wallet mutex -> tor_config
//
// For A to reach `self.tx_lock_outputs` the sync send must succeed
// (try_slatepack_sync_workflow -> Ok(Some(slate))).  That path needs
//   (1) a `tor` executable that reports "Bootstrapped 100%"  (HttpSlateSender::launch_tor)
//   (2) a SOCKS5 proxy at TorConfig.socks_proxy_addr that reaches the recipient's
//       foreign API.
// Offline we provide both OUTSIDE the wallet code:
//   (1) a 3-line shell script called `tor` put first on PATH (prints the bootstrap
//       line and sleeps) - it only stands in for the external tor daemon;
//   (2) a ~60 line SOCKS5 server in this file which forwards every CONNECT (to the
//       recipient's .onion:80) to wallet2's REAL foreign listener
//       (controller::foreign_listener on 127.0.0.1).
// All wallet code on both sides is the real, unmodified code.
//
// The SOCKS server is also the scheduling point: A's first connection proves that A is
// inside try_slatepack_sync_workflow, i.e. holds Owner.tor_config.  There we start B and
// hold A's connection until B reports (node-client hook) that it is inside
// owner::process_invoice_tx, i.e. holds the wallet mutex.
#[macro_use]
extern crate log;
extern crate grin_wallet_api as api;
extern crate grin_wallet_config as config;
extern crate grin_wallet_controller as wallet;
extern crate grin_wallet_impls as impls;

use grin_core as core;
use grin_keychain as keychain;
use grin_util as util;

use grin_wallet_libwallet as libwallet;
use impls::test_framework::{self, LocalWalletClient, WalletProxy};
use keychain::ExtKeychain;
use libwallet::{InitTxArgs, InitTxSendArgs, IssueInvoiceTxArgs, Slate};
use std::io::{Read, Write};
use std::net::{Shutdown, TcpListener, TcpStream};
use std::sync::atomic::{AtomicUsize, Ordering};
use std::sync::mpsc::{channel, Receiver, Sender};
use std::sync::{Arc, Mutex as StdMutex};
use std::thread;
use std::time::{Duration, Instant};
use util::Mutex;

use api::Owner;
use config::TorConfig;

#[macro_use]
mod common;
use common::{clean_output_dir, setup};
mod w2_hooks;
use w2_hooks::{
	create_hook_wallet, dump_thread_stacks, install_fake_tor, mark, HookClient, HookLC,
};

// ---------------------------------------------------------------------------
// stand-ins for the external tor daemon
// ---------------------------------------------------------------------------

type ConnHook = Box<dyn FnMut(usize, &str) + Send>;

/// minimal SOCKS5 (no auth, CONNECT only) server; every CONNECT is forwarded to `target`
fn start_socks(listen: &str, target: String, on_connect: Arc<StdMutex<Option<ConnHook>>>) {
	let l = TcpListener::bind(listen).unwrap();
	let n = Arc::new(AtomicUsize::new(0));
	thread::Builder::new()
		.name("socks-accept".into())
		.spawn(move || {
			for conn in l.incoming() {
				let c = match conn {
					Ok(c) => c,
					Err(_) => continue,
				};
				let target = target.clone();
				let on_connect = on_connect.clone();
				let id = n.fetch_add(1, Ordering::SeqCst) + 1;
				thread::Builder::new()
					.name("socks".into())
					.spawn(move || {
						if let Err(e) = socks_conn(c, id, &target, on_connect) {
							mark(&format!("socks connection #{} ended: {}", id, e));
						}
					})
					.unwrap();
			}
		})
		.unwrap();
}

fn socks_conn(
	mut c: TcpStream,
	id: usize,
	target: &str,
	on_connect: Arc<StdMutex<Option<ConnHook>>>,
) -> std::io::Result<()> {
	let mut h = [0u8; 2];
	c.read_exact(&mut h)?;
	let mut methods = vec![0u8; h[1] as usize];
	c.read_exact(&mut methods)?;
	c.write_all(&[5, 0])?;
	let mut r = [0u8; 4];
	c.read_exact(&mut r)?;
	let host = match r[3] {
		1 => {
			let mut a = [0u8; 4];
			c.read_exact(&mut a)?;
			format!("{}.{}.{}.{}", a[0], a[1], a[2], a[3])
		}
		3 => {
			let mut l = [0u8; 1];
			c.read_exact(&mut l)?;
			let mut d = vec![0u8; l[0] as usize];
			c.read_exact(&mut d)?;
			String::from_utf8_lossy(&d).to_string()
		}
		_ => {
			let mut a = [0u8; 16];
			c.read_exact(&mut a)?;
			"<ipv6>".to_owned()
		}
	};
	let mut p = [0u8; 2];
	c.read_exact(&mut p)?;
	let port = ((p[0] as u16) << 8) | p[1] as u16;
	let dest = format!("{}:{}", host, port);
	{
		let h = on_connect.lock().unwrap().take();
		if let Some(mut h) = h {
			h(id, &dest);
			let mut g = on_connect.lock().unwrap();
			if g.is_none() {
				*g = Some(h);
			}
		}
	}
	let up = TcpStream::connect(target)?;
	c.write_all(&[5, 0, 0, 1, 0, 0, 0, 0, 0, 0])?;
	let (mut c_r, mut c_w) = (c.try_clone()?, c);
	let (mut u_r, mut u_w) = (up.try_clone()?, up);
	let t = thread::spawn(move || {
		let _ = std::io::copy(&mut c_r, &mut u_w);
		let _ = u_w.shutdown(Shutdown::Write);
	});
	let _ = std::io::copy(&mut u_r, &mut c_w);
	let _ = c_w.shutdown(Shutdown::Write);
	let _ = t.join();
	Ok(())
}

fn wait_port(addr: &str) {
	let t0 = Instant::now();
	while TcpStream::connect(addr).is_err() {
		assert!(t0.elapsed() < Duration::from_secs(10), "{} not up", addr);
		thread::sleep(Duration::from_millis(50));
	}
}

// ---------------------------------------------------------------------------

fn run(
	test_dir: &'static str,
	interleave: bool,
	foreign_port: u16,
	socks_port: u16,
) -> Result<(), libwallet::Error> {
	let tag = if interleave { "S1" } else { "S1-control" };
	// listener / tokio worker threads need the global chain type
	core::global::set_global_chain_type(core::global::ChainTypes::AutomatedTesting);

	let mut wallet_proxy: WalletProxy<HookLC, HookClient, ExtKeychain> = WalletProxy::new(test_dir);
	let chain = wallet_proxy.chain.clone();
	let stopper = wallet_proxy.running.clone();

	let client1 = HookClient::new(
		"wallet1",
		LocalWalletClient::new("wallet1", wallet_proxy.tx.clone()),
	);
	let (wallet1, mask1_i, _slot1) = create_hook_wallet(test_dir, "wallet1", client1.clone());
	wallet_proxy.add_wallet(
		"wallet1",
		client1.inner.get_send_instance(),
		wallet1.clone(),
		mask1_i.clone(),
	);
	let mut client2 = HookClient::new(
		"wallet2",
		LocalWalletClient::new("wallet2", wallet_proxy.tx.clone()),
	);
	// see HookClient: wallet2's "node" accepts posted txs without instantly mining them
	client2.accept_post_without_mining = true;
	let (wallet2, mask2_i, _slot2) = create_hook_wallet(test_dir, "wallet2", client2.clone());
	wallet_proxy.add_wallet(
		"wallet2",
		client2.inner.get_send_instance(),
		wallet2.clone(),
		mask2_i.clone(),
	);
	thread::spawn(move || {
		core::global::set_local_chain_type(core::global::ChainTypes::AutomatedTesting);
		if let Err(e) = wallet_proxy.run() {
			error!("Wallet Proxy error: {}", e);
		}
	});
	let mask1 = (&mask1_i).as_ref();
	let mask2 = (&mask2_i).as_ref();
	let reward = core::consensus::REWARD;

	test_framework::award_blocks_to_wallet(&chain, wallet1.clone(), mask1, 10, false)?;
	wallet::controller::owner_single_use(Some(wallet1.clone()), mask1, None, |api, m| {
		let (refreshed, info) = api.retrieve_summary_info(m, true, 1)?;
		assert!(refreshed);
		println!(
			"{}: wallet1 spendable = {}",
			tag, info.amount_currently_spendable
		);
		Ok(())
	})?;

	// wallet2: the recipient. Its slatepack address, an invoice for B, and its REAL
	// foreign listener (plain HTTP on localhost; the SOCKS stand-in forwards to it)
	let mut dest = String::new();
	let mut invoice = Slate::blank(2, true);
	wallet::controller::owner_single_use(Some(wallet2.clone()), mask2, None, |api, m| {
		dest = format!("{}", api.get_slatepack_address(m, 0)?);
		invoice = api.issue_invoice_tx(
			m,
			IssueInvoiceTxArgs {
				amount: reward,
				..Default::default()
			},
		)?;
		Ok(())
	})?;
	println!("{}: recipient (wallet2) slatepack address: {}", tag, dest);
	let foreign_addr = format!("127.0.0.1:{}", foreign_port);
	{
		let wallet2 = wallet2.clone();
		let km = Arc::new(Mutex::new(mask2_i.clone()));
		let addr = foreign_addr.clone();
		thread::Builder::new()
			.name("w2-foreign-listener".into())
			.spawn(move || {
				core::global::set_local_chain_type(core::global::ChainTypes::AutomatedTesting);
				if let Err(e) =
					wallet::controller::foreign_listener(wallet2, km, &addr, None, false, false, None)
				{
					println!("wallet2 foreign listener error: {}", e);
				}
			})
			.unwrap();
	}
	wait_port(&foreign_addr);

	install_fake_tor(&format!("{}/fake_tor_bin", test_dir));
	let on_connect: Arc<StdMutex<Option<ConnHook>>> = Arc::new(StdMutex::new(None));
	let socks_addr = format!("127.0.0.1:{}", socks_port);
	start_socks(&socks_addr, foreign_addr.clone(), on_connect.clone());

	// ONE Owner shared by both threads, exactly like OwnerAPIHandlerV3.owner_api,
	// with a tor config like the one owner_listener passes in
	let owner = Arc::new(Owner::new(wallet1.clone(), None));
	owner.set_tor_config(Some(TorConfig {
		skip_send_attempt: Some(false),
		use_tor_listener: false,
		socks_proxy_addr: socks_addr.clone(),
		send_config_dir: format!("{}/wallet1", test_dir),
		..Default::default()
	}));

	let send_args = Some(InitTxSendArgs {
		dest: dest.clone(),
		post_tx: true,
		fluff: true,
		skip_tor: false,
	});

	let (done_tx, done_rx) = channel::<&'static str>();
	let (go_b_tx, go_b_rx): (Sender<()>, Receiver<()>) = channel();

	let go_b_tx_seq = go_b_tx.clone();
	if interleave {
		let (b_in_tx, b_in_rx) = channel::<()>();
		// scheduling point 1 (thread "socks"): A's HttpSlateSender has connected
		*on_connect.lock().unwrap() = Some(Box::new(move |id, dest| {
			mark(&format!("connection #{}: CONNECT {}", id, dest));
			if id != 1 {
				return;
			}
			mark("=> thread A is inside try_slatepack_sync_workflow, i.e. A HOLDS Owner.tor_config. Starting B and holding A's request until B holds the wallet mutex");
			go_b_tx.send(()).unwrap();
			match b_in_rx.recv_timeout(Duration::from_secs(10)) {
				Ok(_) => mark("B holds the wallet mutex; letting A's request through to wallet2's foreign API"),
				Err(_) => mark("B never reported (giving up, letting A through)"),
			}
		}));
		// scheduling point 2 (thread B): first node call inside owner::process_invoice_tx
		let wallet1_h = wallet1.clone();
		let b_in_tx = StdMutex::new(b_in_tx);
		client1.slot.set(Box::new(move |t, ev| {
			if t != "B" || !ev.ends_with(":pre") {
				return false;
			}
			mark(&format!(
				"hook: B is inside owner::process_invoice_tx ({}), wallet mutex locked = {}",
				ev,
				wallet1_h.try_lock().is_none()
			));
			b_in_tx.lock().unwrap().send(()).unwrap();
			true
		}));
	} else {
		*on_connect.lock().unwrap() = Some(Box::new(move |id, dest| {
			mark(&format!("connection #{}: CONNECT {}", id, dest));
		}));
	}

	// ---- thread A
	{
		let owner = owner.clone();
		let mask = mask1_i.clone();
		let done_tx = done_tx.clone();
		let send_args = send_args.clone();
		thread::Builder::new()
			.name("A".into())
			.spawn(move || {
				core::global::set_local_chain_type(core::global::ChainTypes::AutomatedTesting);
				mark("calling Owner::init_send_tx(send_args = Some(..))");
				let args = InitTxArgs {
					src_acct_name: None,
					amount: reward / 2,
					minimum_confirmations: 2,
					max_outputs: 500,
					num_change_outputs: 1,
					selection_strategy_is_use_all: false,
					send_args,
					..Default::default()
				};
				let res = owner.init_send_tx((&mask).as_ref(), args);
				mark(&format!(
					"init_send_tx RETURNED: {}",
					match res {
						Ok(s) => format!("Ok(slate state {:?})", s.state),
						Err(e) => format!("Err({})", e),
					}
				));
				done_tx.send("A").unwrap();
			})
			.unwrap();
	}
	if !interleave {
		assert_eq!(done_rx.recv_timeout(Duration::from_secs(60)), Ok("A"));
		go_b_tx_seq.send(()).unwrap();
	}

	// ---- thread B
	{
		let owner = owner.clone();
		let mask = mask1_i.clone();
		let done_tx = done_tx.clone();
		let send_args = send_args.clone();
		let invoice = invoice.clone();
		thread::Builder::new()
			.name("B".into())
			.spawn(move || {
				core::global::set_local_chain_type(core::global::ChainTypes::AutomatedTesting);
				go_b_rx.recv().unwrap();
				mark("calling Owner::process_invoice_tx(send_args = Some(..))");
				let args = InitTxArgs {
					src_acct_name: None,
					amount: invoice.amount,
					minimum_confirmations: 2,
					max_outputs: 500,
					num_change_outputs: 1,
					selection_strategy_is_use_all: false,
					send_args,
					..Default::default()
				};
				let res = owner.process_invoice_tx((&mask).as_ref(), &invoice, args);
				mark(&format!(
					"process_invoice_tx RETURNED: {}",
					match res {
						Ok(s) => format!("Ok(slate state {:?})", s.state),
						Err(e) => format!("Err({})", e),
					}
				));
				done_tx.send("B").unwrap();
			})
			.unwrap();
	}

	let mut pending = if interleave { vec!["A", "B"] } else { vec!["B"] };
	let deadline = Instant::now() + Duration::from_secs(if interleave { 20 } else { 60 });
	while !pending.is_empty() {
		let left = deadline.saturating_duration_since(Instant::now());
		match done_rx.recv_timeout(left) {
			Ok(n) => pending.retain(|p| *p != n),
			Err(_) => break,
		}
	}

	if pending.is_empty() {
		println!("{}: both calls returned - NO DEADLOCK in this schedule", tag);
		assert!(!interleave, "interleaved schedule was expected to deadlock");
		stopper.store(false, Ordering::Relaxed);
		thread::sleep(Duration::from_millis(300));
		return Ok(());
	}

	println!(
		"{}: after 20 s these threads have NOT returned: {:?}",
		tag, pending
	);
	println!(
		"{}: probe: wallet mutex locked = {}",
		tag,
		wallet1.try_lock().is_none()
	);
	// Owner.tor_config is private: probe it with the public setter, which locks it
	let (p_tx, p_rx) = channel::<()>();
	{
		let owner = owner.clone();
		thread::Builder::new()
			.name("P".into())
			.spawn(move || {
				mark("probe: calling Owner::set_tor_config(None) (just locks Owner.tor_config)");
				owner.set_tor_config(None);
				mark("probe: set_tor_config returned");
				let _ = p_tx.send(());
			})
			.unwrap();
	}
	let tor_locked = p_rx.recv_timeout(Duration::from_secs(3)).is_err();
	println!(
		"{}: probe: Owner.tor_config locked (set_tor_config did not return within 3 s) = {}",
		tag, tor_locked
	);
	dump_thread_stacks(&["A", "B", "P"]);
	if interleave && pending.len() == 2 && tor_locked {
		println!(
			"DEADLOCK CONFIRMED: S1 tor_config-vs-wallet: thread A (Owner::init_send_tx with send_args) holds Owner.tor_config and waits for the wallet mutex; thread B (Owner::process_invoice_tx with send_args) holds the wallet mutex and waits for Owner.tor_config"
		);
		std::io::stdout().flush().unwrap();
		std::process::exit(0);
	}
	panic!("{}: unexpected stuck set {:?}", tag, pending);
}

#[test]
fn s1_a_control_sequential() {
	let test_dir = "test_output/w2_s1_control";
	setup(test_dir);
	if let Err(e) = run(test_dir, false, 43520, 43521) {
		panic!("Libwallet Error: {}", e);
	}
	// (listener threads keep the dir in use; leave it)
}

// runs last (alphabetical order, --test-threads 1) because it ends the process
#[test]
fn s1_b_deadlock_tor_config_vs_wallet() {
	let test_dir = "test_output/w2_s1";
	setup(test_dir);
	if let Err(e) = run(test_dir, true, 43522, 43523) {
		panic!("Libwallet Error: {}", e);
	}
	clean_output_dir(test_dir);
}
