// Test-only hook infrastructure shared by the W2 lock-order tests
// (w2_tor_wallet_lock_order.rs, w2_secp_wallet_lock_order.rs).
//
// Nothing in here changes wallet behaviour: both wrappers delegate every call to the
// real implementation; they only (a) print a trace line and (b) optionally run a
// closure, so that a test can park one thread at a well defined point of a REAL
// owner-API call while another thread runs.
//
//  * HookClient : NodeClient wrapper around the test framework's LocalWalletClient.
//                 Fires "<method>:pre" before and "<method>:post" after delegating.
//  * HookInst   : WalletInst wrapper around DefaultWalletImpl. `wallet_lock!` and every
//                 api::Owner method call `lc_provider()` immediately after taking the
//                 wallet mutex, so the "lc_provider" event fires at the very start of a
//                 wallet-lock section, i.e. WHILE the calling thread holds the wallet
//                 mutex.
#![allow(dead_code)]

extern crate grin_wallet_impls as impls;
extern crate grin_wallet_libwallet as libwallet;

use grin_core as core;
use grin_keychain as keychain;
use grin_util as util;

use impls::test_framework::LocalWalletClient;
use impls::{DefaultLCProvider, DefaultWalletImpl};
use keychain::ExtKeychain;
use libwallet::{NodeClient, NodeVersionInfo, WalletInst, WalletLCProvider};
use std::collections::HashMap;
use std::sync::{Arc, Mutex as StdMutex, OnceLock};
use std::time::Instant;
use util::secp::key::SecretKey;
use util::secp::pedersen;
use util::{Mutex, ZeroingString};

static START: OnceLock<Instant> = OnceLock::new();

/// ms since first use
pub fn ms() -> u128 {
	START.get_or_init(Instant::now).elapsed().as_millis()
}

pub fn tname() -> String {
	std::thread::current()
		.name()
		.unwrap_or("<unnamed>")
		.to_owned()
}

/// print a marker line: `[  123ms] [thread] text`
pub fn mark(text: &str) {
	println!("[{:>6}ms] [{}] {}", ms(), tname(), text);
}

/// a hook gets (thread name, event name); returns true when it is finished (it is then
/// dropped), false to stay armed
pub type Hook = Box<dyn FnMut(&str, &str) -> bool + Send>;

#[derive(Clone)]
pub struct HookSlot {
	label: String,
	trace: bool,
	hook: Arc<StdMutex<Option<Hook>>>,
}

impl HookSlot {
	pub fn new(label: &str, trace: bool) -> Self {
		HookSlot {
			label: label.to_owned(),
			trace,
			hook: Arc::new(StdMutex::new(None)),
		}
	}
	pub fn set(&self, h: Hook) {
		*self.hook.lock().unwrap() = Some(h);
	}
	pub fn clear(&self) {
		*self.hook.lock().unwrap() = None;
	}
	pub fn fire(&self, event: &str) {
		let t = tname();
		// only trace the threads the tests name explicitly
		if self.trace && t.len() == 1 {
			mark(&format!("trace {}: {}", self.label, event));
		}
		// take the hook out while it runs, so that calls made by the hook itself (or by
		// other threads while the hook is parked) don't recurse into it
		let h = self.hook.lock().unwrap().take();
		if let Some(mut h) = h {
			let done = h(&t, event);
			if !done {
				let mut g = self.hook.lock().unwrap();
				if g.is_none() {
					*g = Some(h);
				}
			}
		}
	}
}

#[derive(Clone)]
pub struct HookClient {
	pub inner: LocalWalletClient,
	pub slot: HookSlot,
	/// if set, post_tx just reports success, like a real node that accepted the tx into
	/// its pool.  (The test framework's WalletProxy instead mines a block on every post
	/// and pays the reward to the POSTING wallet, for which the proxy thread locks that
	/// wallet's mutex - impossible while that wallet is inside Foreign::finalize_tx, which
	/// posts while holding its own mutex.  Pure test-framework artefact, so the recipient
	/// wallet's client opts out of it.)
	pub accept_post_without_mining: bool,
}

impl HookClient {
	pub fn new(label: &str, inner: LocalWalletClient) -> Self {
		HookClient {
			inner,
			slot: HookSlot::new(&format!("{} node client", label), true),
			accept_post_without_mining: false,
		}
	}
}

impl NodeClient for HookClient {
	fn node_url(&self) -> &str {
		self.inner.node_url()
	}
	fn node_api_secret(&self) -> Option<String> {
		self.inner.node_api_secret()
	}
	fn set_node_url(&mut self, u: &str) {
		self.inner.set_node_url(u)
	}
	fn set_node_api_secret(&mut self, s: Option<String>) {
		self.inner.set_node_api_secret(s)
	}
	fn get_version_info(&mut self) -> Option<NodeVersionInfo> {
		self.inner.get_version_info()
	}
	fn post_tx(&self, tx: &core::core::Transaction, fluff: bool) -> Result<(), libwallet::Error> {
		self.slot.fire("post_tx:pre");
		if self.accept_post_without_mining {
			return Ok(());
		}
		let r = self.inner.post_tx(tx, fluff);
		self.slot.fire("post_tx:post");
		r
	}
	fn get_chain_tip(&self) -> Result<(u64, String), libwallet::Error> {
		self.slot.fire("get_chain_tip:pre");
		let r = self.inner.get_chain_tip();
		self.slot.fire("get_chain_tip:post");
		r
	}
	fn get_outputs_from_node(
		&self,
		wallet_outputs: Vec<pedersen::Commitment>,
	) -> Result<HashMap<pedersen::Commitment, (String, u64, u64)>, libwallet::Error> {
		self.slot.fire("get_outputs_from_node:pre");
		let r = self.inner.get_outputs_from_node(wallet_outputs);
		self.slot.fire("get_outputs_from_node:post");
		r
	}
	fn get_kernel(
		&mut self,
		excess: &pedersen::Commitment,
		min_height: Option<u64>,
		max_height: Option<u64>,
	) -> Result<Option<(core::core::TxKernel, u64, u64)>, libwallet::Error> {
		self.slot.fire("get_kernel:pre");
		let r = self.inner.get_kernel(excess, min_height, max_height);
		self.slot.fire("get_kernel:post");
		r
	}
	fn get_outputs_by_pmmr_index(
		&self,
		start_index: u64,
		end_index: Option<u64>,
		max_outputs: u64,
	) -> Result<
		(
			u64,
			u64,
			Vec<(pedersen::Commitment, pedersen::RangeProof, bool, u64, u64)>,
		),
		libwallet::Error,
	> {
		self.slot.fire("get_outputs_by_pmmr_index:pre");
		let r = self
			.inner
			.get_outputs_by_pmmr_index(start_index, end_index, max_outputs);
		self.slot.fire("get_outputs_by_pmmr_index:post");
		r
	}
	fn height_range_to_pmmr_indices(
		&self,
		start_height: u64,
		end_height: Option<u64>,
	) -> Result<(u64, u64), libwallet::Error> {
		self.slot.fire("height_range_to_pmmr_indices:pre");
		let r = self
			.inner
			.height_range_to_pmmr_indices(start_height, end_height);
		self.slot.fire("height_range_to_pmmr_indices:post");
		r
	}
}

pub type HookLC = DefaultLCProvider<'static, HookClient, ExtKeychain>;
pub type HookWallet = Arc<Mutex<Box<dyn WalletInst<'static, HookLC, HookClient, ExtKeychain>>>>;

pub struct HookInst {
	inner: DefaultWalletImpl<'static, HookClient>,
	slot: HookSlot,
}

impl WalletInst<'static, HookLC, HookClient, ExtKeychain> for HookInst {
	fn lc_provider(
		&mut self,
	) -> Result<
		&mut (dyn WalletLCProvider<'static, HookClient, ExtKeychain> + 'static),
		libwallet::Error,
	> {
		// we are called by whoever has just locked the wallet mutex
		self.slot
			.fire("lc_provider (= start of a wallet-mutex section; caller HOLDS the wallet mutex)");
		<DefaultWalletImpl<'static, HookClient> as WalletInst<
			'static,
			HookLC,
			HookClient,
			ExtKeychain,
		>>::lc_provider(&mut self.inner)
	}
}

/// create + open a wallet whose WalletInst and NodeClient are the hooking wrappers.
/// returns (wallet, mask, slot fired at the start of every wallet-lock section)
pub fn create_hook_wallet(
	test_dir: &str,
	name: &str,
	client: HookClient,
) -> (HookWallet, Option<SecretKey>, HookSlot) {
	let slot = HookSlot::new(&format!("{} WalletInst", name), true);
	let inst = HookInst {
		inner: DefaultWalletImpl::<HookClient>::new(client).unwrap(),
		slot: slot.clone(),
	};
	let mut wallet =
		Box::new(inst) as Box<dyn WalletInst<'static, HookLC, HookClient, ExtKeychain>>;
	let lc = wallet.lc_provider().unwrap();
	let _ = lc.set_top_level_directory(&format!("{}/{}", test_dir, name));
	lc.create_wallet(None, None, 32, ZeroingString::from(""), false)
		.unwrap();
	let mask = lc
		.open_wallet(None, ZeroingString::from(""), true, false)
		.unwrap();
	(Arc::new(Mutex::new(wallet)), mask, slot)
}

/// puts a fake `tor` first on PATH: a shell script that prints tor's "Bootstrapped 100%"
/// notice and then sleeps.  It only stands in for the external tor daemon binary.
pub fn install_fake_tor(dir: &str) {
	std::fs::create_dir_all(dir).unwrap();
	let abs = std::fs::canonicalize(dir).unwrap();
	let path = abs.join("tor");
	std::fs::write(
		&path,
		"#!/bin/sh\necho \"Oct 04 00:00:00.000 [notice] Bootstrapped 100% (done): Done\"\nexec sleep 600\n",
	)
	.unwrap();
	use std::os::unix::fs::PermissionsExt;
	std::fs::set_permissions(&path, std::fs::Permissions::from_mode(0o755)).unwrap();
	let old = std::env::var("PATH").unwrap_or_default();
	if !old.starts_with(abs.to_str().unwrap()) {
		std::env::set_var("PATH", format!("{}:{}", abs.display(), old));
	}
}

/// Dump the stacks of the named threads of this process with gdb (if available).
/// Purely diagnostic: shows exactly where the stuck threads are parked.
pub fn dump_thread_stacks(names: &[&str]) {
	let pid = std::process::id();
	// NB: gdb stops every thread of this process (including this one) while it works, so
	// its output must NOT go to a pipe we are supposed to drain: send it to a file.
	let out_path = std::env::temp_dir().join(format!("w2_gdb_{}.txt", pid));
	let out_file = match std::fs::File::create(&out_path) {
		Ok(f) => f,
		Err(e) => {
			println!("(cannot create {}: {})", out_path.display(), e);
			return;
		}
	};
	let status = std::process::Command::new("timeout")
		.args(&[
			"120",
			"gdb",
			"-p",
			&format!("{}", pid),
			"-batch",
			"-ex",
			"set pagination off",
			"-ex",
			"thread apply all bt 40",
		])
		.stdin(std::process::Stdio::null())
		.stdout(std::process::Stdio::from(out_file))
		.stderr(std::process::Stdio::null())
		.status();
	if let Err(e) = status {
		println!("(gdb not available: {})", e);
		return;
	}
	let out = std::fs::read_to_string(&out_path).unwrap_or_default();
	let _ = std::fs::remove_file(&out_path);
	// split into per-thread blocks; keep only the threads asked for that actually run one
	// of the test's closures (threads spawned BY a named thread inherit its name on
	// Linux), and only frames that belong to grin / the mutex being waited for
	let mut printing = false;
	let mut block: Vec<String> = vec![];
	let flush = |block: &mut Vec<String>| {
		if block.iter().any(|l| l.contains(" w2_")) {
			for l in block.iter() {
				println!("{}", l);
			}
		}
		block.clear();
	};
	for line in out.lines() {
		if line.starts_with("Thread ") {
			flush(&mut block);
			printing = names
				.iter()
				.any(|n| line.contains(&format!("\"{}\"", n)));
			if printing {
				block.push(format!("---- gdb: {}", line));
			}
			continue;
		}
		if printing && line.starts_with('#') {
			// "#N  0xADDR in path::to::func<generics> (args) at file:line"
			let func = match line.find(" in ") {
				Some(i) => &line[i + 4..],
				None => line[line.find(' ').unwrap_or(0)..].trim_start(),
			};
			let interesting = func.starts_with("grin_wallet_")
				|| func.starts_with("grin_util::")
				|| func.starts_with("grin_core::")
				|| func.starts_with("grin_keychain::")
				|| func.starts_with("w2_")
				|| func.starts_with("parking_lot::raw_mutex::RawMutex::lock_slow")
				|| func.starts_with("lock_api::mutex::Mutex");
			if !interesting {
				continue;
			}
			// function path without generic / argument noise
			let mut name = String::new();
			let mut depth = 0;
			for ch in func.chars() {
				match ch {
					'<' => depth += 1,
					'>' => depth -= 1,
					' ' if depth == 0 => break,
					c if depth == 0 => name.push(c),
					_ => {}
				}
			}
			if func.starts_with("lock_api::mutex::Mutex") {
				// keep the protected type: that tells WHICH mutex
				let what = if func.contains("secp256k1zkp::Secp256k1") {
					"<secp256k1zkp::Secp256k1>::lock   <== the static secp mutex"
				} else if func.contains("WalletInst") {
					"<Box<dyn WalletInst>>::lock   <== the wallet mutex"
				} else if func.contains("TorConfig") {
					"<Option<TorConfig>>::lock   <== Owner.tor_config"
				} else if func.contains("SecretKey") {
					"<Option<SecretKey>>::lock   <== a keychain-mask / shared-key mutex"
				} else {
					"<?>::lock"
				};
				name = format!("lock_api::mutex::Mutex{}", what);
			}
			let at = match line.rfind(" at ") {
				Some(k) => {
					let f = &line[k + 4..];
					// shorten registry paths
					match f.rfind("/src/") {
						Some(m) if f.contains(".cargo/registry") => {
							let head = &f[..m];
							let krate = head.rsplit('/').next().unwrap_or("");
							format!("{}{}", krate, &f[m..])
						}
						_ => f.to_owned(),
					}
				}
				None => String::new(),
			};
			let num = line.split_whitespace().next().unwrap_or("#?");
			block.push(format!("     {:<4} {}  ({})", num, name, at));
		}
	}
	flush(&mut block);
}
