// SUSPECT 2: lock-order inversion between the global secp context mutex
// (grin_util::static_secp_instance()) and the wallet mutex (Owner.wallet_inst).
//
//   thread A : <Owner as OwnerRpc>::create_mwixnet_req   secp mutex  -> wallet mutex
//   thread B : Owner::retrieve_summary_info(refresh)     wallet mutex -> secp mutex
//              (update_outputs -> refresh_output_state -> apply_api_outputs, coinbase
//              confirmation branch)
//
// No source changes; only the hooking wrappers from w2_hooks are used to park B inside
// its wallet-mutex section until A has taken the secp mutex.
#[macro_use]
extern crate log;
extern crate grin_wallet_api as api;
extern crate grin_wallet_controller as wallet;
extern crate grin_wallet_impls as impls;

use grin_core as core;
use grin_keychain as keychain;
use grin_util as util;

use grin_wallet_libwallet as libwallet;
use impls::test_framework::{self, LocalWalletClient, WalletProxy};
use keychain::ExtKeychain;
use libwallet::OutputStatus;
use std::sync::atomic::Ordering;
use std::sync::mpsc::channel;
use std::sync::{Arc, Mutex as StdMutex};
use std::thread;
use std::time::{Duration, Instant};
use util::ToHex;

use api::{Owner, OwnerRpc, Token};

#[macro_use]
mod common;
use common::{clean_output_dir, setup};
mod w2_hooks;
use w2_hooks::{create_hook_wallet, dump_thread_stacks, mark, HookClient, HookLC};

const SERVER_KEYS: [&str; 3] = [
	"97444ae673bb92c713c1a2f7b8882ffbfc1c67401a280a775dce1a8651584332",
	"0c9414341f2140ed34a5a12a6479bf5a6404820d001ab81d9d3e8cc38f049b4e",
	"b58ece97d60e71bb7e53218400b0d67bfe6a3cb7d3b4a67a44f8fb7c525cbca5",
];

// NB: grin_util::static_secp_instance() itself LOCKS the mutex (to re-randomize the
// context) before handing out the Arc, so a probe must not call it while somebody may
// hold the lock: fetch the Arc once, up front, and only ever try_lock() it afterwards.
static SECP_ARC: std::sync::OnceLock<Arc<util::Mutex<util::secp::Secp256k1>>> =
	std::sync::OnceLock::new();

fn secp_is_locked() -> bool {
	let inst = SECP_ARC.get_or_init(util::static_secp_instance);
	let g = inst.try_lock();
	g.is_none()
}

fn run(test_dir: &'static str, interleave: bool) -> Result<(), libwallet::Error> {
	let tag = if interleave { "S2" } else { "S2-control" };
	assert!(!secp_is_locked()); // also initialises SECP_ARC while nobody holds the lock
	let mut wallet_proxy: WalletProxy<HookLC, HookClient, ExtKeychain> = WalletProxy::new(test_dir);
	let chain = wallet_proxy.chain.clone();
	let stopper = wallet_proxy.running.clone();

	let client1 = HookClient::new(
		"wallet1",
		LocalWalletClient::new("wallet1", wallet_proxy.tx.clone()),
	);
	let (wallet1, mask1_i, _inst_slot) = create_hook_wallet(test_dir, "wallet1", client1.clone());
	wallet_proxy.add_wallet(
		"wallet1",
		client1.inner.get_send_instance(),
		wallet1.clone(),
		mask1_i.clone(),
	);
	thread::spawn(move || {
		if let Err(e) = wallet_proxy.run() {
			error!("Wallet Proxy error: {}", e);
		}
	});
	let mask1 = (&mask1_i).as_ref();

	// some confirmed coinbases
	test_framework::award_blocks_to_wallet(&chain, wallet1.clone(), mask1, 5, false)?;
	let mut commit_hex = String::new();
	wallet::controller::owner_single_use(Some(wallet1.clone()), mask1, None, |api, m| {
		let (refreshed, _) = api.retrieve_summary_info(m, true, 1)?;
		assert!(refreshed);
		let (_, outputs) = api.retrieve_outputs(m, false, false, None)?;
		let o = outputs
			.iter()
			.find(|o| o.output.status == OutputStatus::Unspent)
			.unwrap();
		commit_hex = o.commit.0.to_hex();
		Ok(())
	})?;
	// one more block: wallet1 now has a freshly mined, still Unconfirmed coinbase, so the
	// next refresh goes through the coinbase-confirmation branch of apply_api_outputs
	test_framework::award_blocks_to_wallet(&chain, wallet1.clone(), mask1, 1, false)?;
	wallet::controller::owner_single_use(Some(wallet1.clone()), mask1, None, |api, m| {
		let (_, outputs) = api.retrieve_outputs(m, false, false, None)?;
		let n = outputs
			.iter()
			.filter(|o| o.output.is_coinbase && o.output.status == OutputStatus::Unconfirmed)
			.count();
		println!("{}: wallet1 has {} Unconfirmed coinbase output(s) before the refresh", tag, n);
		assert_eq!(n, 1);
		Ok(())
	})?;

	// ONE Owner shared by both threads, exactly like OwnerAPIHandlerV3.owner_api
	let owner = Arc::new(Owner::new(wallet1.clone(), None));

	let (done_tx, done_rx) = channel::<&'static str>();
	let (go_a_tx, go_a_rx) = channel::<()>();
	let go_a_tx = Arc::new(StdMutex::new(go_a_tx));

	if interleave {
		// B's hook: runs in thread B, inside update_outputs' wallet_lock! section, right
		// after get_outputs_from_node returned and before apply_api_outputs
		let wallet1_h = wallet1.clone();
		let go_a_tx = go_a_tx.clone();
		client1.slot.set(Box::new(move |t, ev| {
			if t != "B" || ev != "get_outputs_from_node:post" {
				return false;
			}
			mark(&format!(
				"hook: B is inside refresh_output_state (update_outputs' wallet-mutex section). wallet mutex locked = {}, secp mutex locked = {}",
				wallet1_h.try_lock().is_none(),
				secp_is_locked()
			));
			mark("hook: releasing thread A, then waiting until A holds the secp mutex");
			go_a_tx.lock().unwrap().send(()).unwrap();
			let t0 = Instant::now();
			while !secp_is_locked() {
				if t0.elapsed() > Duration::from_secs(10) {
					mark("hook: A never took the secp mutex (giving up)");
					return true;
				}
				thread::sleep(Duration::from_millis(5));
			}
			mark("hook: secp mutex is now held by somebody else (= A, in OwnerRpc::create_mwixnet_req)");
			// give A time to run into the wallet mutex
			thread::sleep(Duration::from_millis(500));
			mark(&format!(
				"hook: secp mutex locked = {} ; B now continues into apply_api_outputs",
				secp_is_locked()
			));
			true
		}));
	}

	// ---- thread A
	let a = {
		let owner = owner.clone();
		let mask = mask1_i.clone();
		let done_tx = done_tx.clone();
		let commit_hex = commit_hex.clone();
		thread::Builder::new().name("A".into()).spawn(move || {
			core::global::set_local_chain_type(core::global::ChainTypes::AutomatedTesting);
			go_a_rx.recv().unwrap();
			mark("calling <Owner as OwnerRpc>::create_mwixnet_req (takes secp mutex, then wallet mutex)");
			let res = OwnerRpc::create_mwixnet_req(
				&*owner,
				Token {
					keychain_mask: mask,
				},
				commit_hex,
				"50000000".to_owned(),
				false,
				SERVER_KEYS.iter().map(|s| s.to_string()).collect(),
			);
			mark(&format!(
				"create_mwixnet_req RETURNED: {}",
				match res {
					Ok(_) => "Ok(SwapReq)".to_owned(),
					Err(e) => format!("Err({})", e),
				}
			));
			done_tx.send("A").unwrap();
		})
	}
	.unwrap();
	let _ = a;

	if !interleave {
		// control: same two calls, one after the other
		go_a_tx.lock().unwrap().send(()).unwrap();
		assert_eq!(done_rx.recv_timeout(Duration::from_secs(20)), Ok("A"));
	}

	// ---- thread B
	let b = {
		let owner = owner.clone();
		let mask = mask1_i.clone();
		let done_tx = done_tx.clone();
		thread::Builder::new().name("B".into()).spawn(move || {
			core::global::set_local_chain_type(core::global::ChainTypes::AutomatedTesting);
			mark("calling Owner::retrieve_summary_info(refresh_from_node = true)");
			let res = owner.retrieve_summary_info((&mask).as_ref(), true, 1);
			mark(&format!(
				"retrieve_summary_info RETURNED: {}",
				match res {
					Ok((refreshed, info)) => format!(
						"Ok(refreshed={}, last_confirmed_height={})",
						refreshed, info.last_confirmed_height
					),
					Err(e) => format!("Err({})", e),
				}
			));
			done_tx.send("B").unwrap();
		})
	}
	.unwrap();
	let _ = b;

	let mut pending = if interleave { vec!["A", "B"] } else { vec!["B"] };
	let deadline = Instant::now() + Duration::from_secs(20);
	while !pending.is_empty() {
		let left = deadline.saturating_duration_since(Instant::now());
		match done_rx.recv_timeout(left) {
			Ok(n) => pending.retain(|p| *p != n),
			Err(_) => break,
		}
	}

	if pending.is_empty() {
		println!("{}: both calls returned - NO DEADLOCK in this schedule", tag);
		assert!(!interleave, "interleaved schedule was expected to deadlock");
		stopper.store(false, Ordering::Relaxed);
		thread::sleep(Duration::from_millis(300));
		return Ok(());
	}

	println!(
		"{}: after 20 s these threads have NOT returned: {:?}",
		tag, pending
	);
	println!(
		"{}: probe: wallet mutex locked = {}, secp mutex locked = {}",
		tag,
		wallet1.try_lock().is_none(),
		secp_is_locked()
	);
	dump_thread_stacks(&["A", "B"]);
	if interleave && pending.len() == 2 {
		println!(
			"DEADLOCK CONFIRMED: S2 secp-vs-wallet: thread A (OwnerRpc::create_mwixnet_req) holds the secp mutex and waits for the wallet mutex; thread B (retrieve_summary_info refresh) holds the wallet mutex and waits for the secp mutex"
		);
		use std::io::Write;
		std::io::stdout().flush().unwrap();
		std::process::exit(0);
	}
	panic!("{}: unexpected stuck set {:?}", tag, pending);
}

#[test]
fn s2_a_control_sequential() {
	let test_dir = "test_output/w2_s2_control";
	setup(test_dir);
	if let Err(e) = run(test_dir, false) {
		panic!("Libwallet Error: {}", e);
	}
	clean_output_dir(test_dir);
}

// runs last (alphabetical order, --test-threads 1) because it ends the process
#[test]
fn s2_b_deadlock_secp_vs_wallet() {
	let test_dir = "test_output/w2_s2";
	setup(test_dir);
	if let Err(e) = run(test_dir, true) {
		panic!("Libwallet Error: {}", e);
	}
	clean_output_dir(test_dir);
}
