// Side-observation probes for the UNCHANGED code (each test asserts the property and is expected
// to FAIL where the unchanged code violates it).
#[macro_use]
extern crate log;
extern crate grin_wallet_controller as wallet;
extern crate grin_wallet_impls as impls;

use grin_core as core;
use grin_keychain as keychain;
use grin_util as util;
use grin_wallet_libwallet as libwallet;

use self::keychain::{BlindSum, BlindingFactor, ExtKeychain, Keychain};
use self::util::secp::key::PublicKey;
use self::util::ZeroingString;
use impls::test_framework::{self, LocalWalletClient};
use impls::{DefaultLCProvider, DefaultWalletImpl};
use libwallet::{InitTxArgs, IssueInvoiceTxArgs, Slate, SlateState, WalletInst};
use std::sync::atomic::Ordering;
use std::thread;
use std::time::Duration;

#[macro_use]
mod common;
use common::{clean_output_dir, create_wallet_proxy, setup};

fn offset_exposes_excess(slate: &Slate) -> bool {
	let kc = ExtKeychain::from_random_seed(false).unwrap();
	let secp = kc.secp();
	if slate.offset == BlindingFactor::zero() {
		return false;
	}
	let plus = slate.offset.clone();
	let minus = kc
		.blind_sum(&BlindSum::new().sub_blinding_factor(slate.offset.clone()))
		.unwrap();
	for cand in &[plus, minus] {
		let sk = match cand.secret_key(secp) {
			Ok(k) => k,
			Err(_) => continue,
		};
		let pk = PublicKey::from_secret_key(secp, &sk).unwrap();
		for p in &slate.participant_data {
			if p.public_blind_excess == pk {
				return true;
			}
		}
	}
	false
}

fn find_files(dir: &std::path::Path, out: &mut Vec<std::path::PathBuf>) {
	if let Ok(rd) = std::fs::read_dir(dir) {
		for e in rd.flatten() {
			let p = e.path();
			if p.is_dir() {
				find_files(&p, out);
			} else {
				out.push(p);
			}
		}
	}
}

fn contains(hay: &[u8], needle: &[u8]) -> bool {
	hay.windows(needle.len()).any(|w| w == needle)
}

/// P2 + P3 + P4 share one chain
fn probes_impl(test_dir: &'static str, which: u8) -> Result<(), libwallet::Error> {
	let mut wallet_proxy = create_wallet_proxy(test_dir);
	let chain = wallet_proxy.chain.clone();
	let stopper = wallet_proxy.running.clone();

	create_wallet_and_add!(
		client1,
		wallet1,
		mask1_i,
		test_dir,
		"wallet1",
		None,
		&mut wallet_proxy,
		true
	);
	let mask1 = (&mask1_i).as_ref();
	create_wallet_and_add!(
		client2,
		wallet2,
		mask2_i,
		test_dir,
		"wallet2",
		None,
		&mut wallet_proxy,
		true
	);
	let mask2 = (&mask2_i).as_ref();

	thread::spawn(move || {
		if let Err(e) = wallet_proxy.run() {
			error!("Wallet Proxy error: {}", e);
		}
	});

	let reward = core::consensus::REWARD;
	let _ = test_framework::award_blocks_to_wallet(&chain, wallet1.clone(), mask1, 10, false);

	let pay_args = InitTxArgs {
		src_acct_name: None,
		amount: reward * 2,
		minimum_confirmations: 2,
		max_outputs: 500,
		num_change_outputs: 1,
		selection_strategy_is_use_all: false,
		..Default::default()
	};

	if which == 2 {
		// P2: self-sent invoice: the Invoice2 slate (written out as a slatepack / file by the CLI)
		let mut slate = Slate::blank(2, true);
		wallet::controller::owner_single_use(Some(wallet1.clone()), mask1, None, |api, m| {
			let args = IssueInvoiceTxArgs {
				amount: reward * 2,
				..Default::default()
			};
			slate = api.issue_invoice_tx(m, args)?;
			slate = api.process_invoice_tx(m, &slate, pay_args.clone())?;
			Ok(())
		})?;
		assert_eq!(slate.state, SlateState::Invoice2);
		assert!(
			!offset_exposes_excess(&slate),
			"P2: self-sent Invoice2 slate: kernel offset is minus the payer's secret excess"
		);
	}

	if which == 3 {
		// P3: wallet 1 has a pending late-locked send X to wallet 2; wallet 2 (who knows X) invoices
		// wallet 1 under the same slate id
		let mut s1 = Slate::blank(2, false);
		wallet::controller::owner_single_use(Some(wallet1.clone()), mask1, None, |api, m| {
			let args = InitTxArgs {
				src_acct_name: None,
				amount: reward * 2,
				minimum_confirmations: 2,
				max_outputs: 500,
				num_change_outputs: 1,
				selection_strategy_is_use_all: false,
				late_lock: Some(true),
				..Default::default()
			};
			s1 = api.init_send_tx(m, args)?;
			api.tx_lock_outputs(m, &s1)?;
			Ok(())
		})?;
		let mut inv = Slate::blank(2, true);
		wallet::controller::owner_single_use(Some(wallet2.clone()), mask2, None, |api, m| {
			let args = IssueInvoiceTxArgs {
				amount: reward * 2,
				..Default::default()
			};
			inv = api.issue_invoice_tx(m, args)?;
			Ok(())
		})?;
		inv.id = s1.id; // the peer picks the id of the pending send
		let mut res = None;
		wallet::controller::owner_single_use(Some(wallet1.clone()), mask1, None, |api, m| {
			res = Some(api.process_invoice_tx(m, &inv, pay_args.clone()));
			Ok(())
		})?;
		let res = res.unwrap();
		println!("P3: pay invoice with the id of a pending late-lock send: {:?}", res.as_ref().map(|s| s.state.clone()));
		if let Ok(s) = res {
			assert!(
				!offset_exposes_excess(&s),
				"P3: Invoice2 reply to a foreign invoicer: kernel offset is minus the payer's secret excess"
			);
		}
	}

	if which == 4 {
		// P4: a pending send's context at rest
		let mut s1 = Slate::blank(2, false);
		wallet::controller::owner_single_use(Some(wallet1.clone()), mask1, None, |api, m| {
			let args = InitTxArgs {
				src_acct_name: None,
				amount: reward * 2,
				minimum_confirmations: 2,
				max_outputs: 500,
				num_change_outputs: 1,
				selection_strategy_is_use_all: false,
				..Default::default()
			};
			s1 = api.init_send_tx(m, args)?;
			api.tx_lock_outputs(m, &s1)?;
			Ok(())
		})?;
		let (key_json, nonce_json) = {
			wallet_inst!(wallet1, w);
			let ctx = w.get_private_context(mask1, s1.id.as_bytes())?;
			(
				serde_json::to_string(&ctx.sec_key).unwrap(),
				serde_json::to_string(&ctx.sec_nonce).unwrap(),
			)
		};
		println!("P4: secret excess as serialised: {}", key_json);
		let mut files = vec![];
		find_files(
			std::path::Path::new(&format!("{}/wallet1", test_dir)),
			&mut files,
		);
		let mut hits = vec![];
		for f in files {
			if let Ok(bytes) = std::fs::read(&f) {
				if contains(&bytes, key_json.as_bytes()) {
					hits.push(format!("secret excess in {:?}", f));
				}
				if contains(&bytes, nonce_json.as_bytes()) {
					hits.push(format!("secret nonce in {:?}", f));
				}
			}
		}
		println!("P4: {:?}", hits);
		assert!(
			hits.is_empty(),
			"P4: pending transaction's secret excess / nonce is on disk in plaintext"
		);
	}

	stopper.store(false, Ordering::Relaxed);
	thread::sleep(Duration::from_millis(200));
	Ok(())
}

#[test]
fn p2_self_invoice_offset() -> Result<(), libwallet::Error> {
	let test_dir = "test_output/probe_c12_p2";
	setup(test_dir);
	probes_impl(test_dir, 2)?;
	clean_output_dir(test_dir);
	Ok(())
}

#[test]
fn p3_invoice_with_id_of_late_lock_send() -> Result<(), libwallet::Error> {
	let test_dir = "test_output/probe_c12_p3";
	setup(test_dir);
	probes_impl(test_dir, 3)?;
	clean_output_dir(test_dir);
	Ok(())
}

#[test]
fn p4_context_at_rest() -> Result<(), libwallet::Error> {
	let test_dir = "test_output/probe_c12_p4";
	setup(test_dir);
	probes_impl(test_dir, 4)?;
	clean_output_dir(test_dir);
	Ok(())
}

/// P5: a seed saved under "pw" must not open with a different password
#[test]
fn p5_password_trailing_nul() {
	let test_dir = "test_output/probe_c12_p5";
	setup(test_dir);
	let (tx, _rx) = std::sync::mpsc::channel();
	let client = LocalWalletClient::new("wallet1", tx);
	let mut wallet = Box::new(DefaultWalletImpl::<LocalWalletClient>::new(client).unwrap())
		as Box<
			dyn WalletInst<
				DefaultLCProvider<'static, LocalWalletClient, ExtKeychain>,
				LocalWalletClient,
				ExtKeychain,
			>,
		>;
	let lc = wallet.lc_provider().unwrap();
	let _ = lc.set_top_level_directory(&format!("{}/{}", test_dir, "wallet1"));
	lc.create_wallet(None, None, 32, ZeroingString::from("pw"), false)
		.unwrap();
	let right = lc.get_mnemonic(None, ZeroingString::from("pw")).unwrap();
	assert!(lc.get_mnemonic(None, ZeroingString::from("pW")).is_err());
	assert!(lc.get_mnemonic(None, ZeroingString::from("pw ")).is_err());
	let other = lc.get_mnemonic(None, ZeroingString::from("pw\0"));
	println!("P5: open with \"pw\\0\": ok = {}", other.is_ok());
	if let Ok(o) = &other {
		println!("P5: same phrase = {}", **o == *right);
	}
	assert!(
		other.is_err(),
		"P5: seed saved under \"pw\" opens with the different password \"pw\\0\""
	);
	clean_output_dir(test_dir);
}
