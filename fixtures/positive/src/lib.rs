//! Positive controls for the analysis library: each function is a minimal instance of a
//! shape the rules must recognise (violating and conforming twins).
#![allow(dead_code, unused_variables, unused_must_use, unused_mut)]

use std::sync::{Arc, Mutex};

pub struct Error;

fn check(x: u32) -> Result<(), Error> {
	if x > 3 {
		Err(Error)
	} else {
		Ok(())
	}
}
fn effect(x: u32) -> Result<(), Error> {
	Ok(())
}

/// conforming: the effect needs the Ok-edge of check
pub fn guarded(x: u32) -> Result<(), Error> {
	check(x)?;
	effect(x)?;
	Ok(())
}
/// violating: the result of check is ignored
pub fn unguarded(x: u32) -> Result<(), Error> {
	let _ = check(x);
	effect(x)?;
	Ok(())
}
/// violating: guard only on one branch
pub fn half_guarded(x: u32, flag: bool) -> Result<(), Error> {
	if flag {
		check(x)?;
	}
	effect(x)?;
	Ok(())
}

/// panic sites
pub fn slice_unguarded(b: &[u8]) -> [u8; 4] {
	let mut out = [0u8; 4];
	out.copy_from_slice(&b[0..4]);
	out
}
pub fn slice_guarded(b: &[u8]) -> Option<[u8; 4]> {
	if b.len() < 4 {
		return None;
	}
	let mut out = [0u8; 4];
	out.copy_from_slice(&b[0..4]);
	Some(out)
}
pub fn div_unguarded(a: u64, n: u64) -> u64 {
	a / n
}
pub fn div_guarded(a: u64, n: u64) -> Option<u64> {
	if n == 0 {
		return None;
	}
	Some(a / n)
}
pub fn add_overflow(a: u64, b: u64) -> u64 {
	a + b
}
pub fn sub_guarded(a: u64, b: u64) -> u64 {
	if a >= b {
		a - b
	} else {
		0
	}
}
pub fn unwrap_site(o: Option<u32>) -> u32 {
	o.unwrap()
}

/// dropped results
pub fn drops_result(x: u32) {
	let _ = effect(x);
}
pub fn uses_result(x: u32) -> Result<(), Error> {
	effect(x)
}

/// enum path enumeration
#[derive(PartialEq, Clone, Copy)]
pub enum St {
	A,
	B,
	C,
}
pub struct Rec {
	pub st: St,
	pub n: u32,
}
pub fn by_variant(r: &mut Rec) -> u32 {
	if r.st == St::A || r.st == St::B {
		1
	} else {
		match r.st {
			St::C => {
				r.st = St::A;
				2
			}
			_ => 3,
		}
	}
}

/// lock order
pub struct Two {
	pub a: Mutex<u32>,
	pub b: Mutex<u32>,
}
pub fn ab(t: &Two) -> u32 {
	let ga = t.a.lock().unwrap();
	let gb = t.b.lock().unwrap();
	*ga + *gb
}
pub fn ba(t: &Two) -> u32 {
	let gb = t.b.lock().unwrap();
	let ga = t.a.lock().unwrap();
	*ga + *gb
}

/// codec shapes
pub trait W {
	fn w8(&mut self, v: u8) -> Result<(), Error>;
	fn w64(&mut self, v: u64) -> Result<(), Error>;
}
pub trait R {
	fn r8(&mut self) -> Result<u8, Error>;
	fn r64(&mut self) -> Result<u64, Error>;
}
pub fn write_ok<X: W>(w: &mut X, a: u8, b: u64, opt: Option<u64>) -> Result<(), Error> {
	w.w8(a)?;
	w.w64(b)?;
	if let Some(o) = opt {
		w.w64(o)?;
	}
	Ok(())
}
pub fn read_ok<X: R>(r: &mut X, has: bool) -> Result<(u8, u64, Option<u64>), Error> {
	let a = r.r8()?;
	let b = r.r64()?;
	let o = if has { Some(r.r64()?) } else { None };
	Ok((a, b, o))
}
pub fn write_swapped<X: W>(w: &mut X, a: u8, b: u64) -> Result<(), Error> {
	w.w64(b)?;
	w.w8(a)?;
	Ok(())
}

/// flag roots
pub fn sink(flag: bool) -> u32 {
	if flag {
		1
	} else {
		0
	}
}
pub fn caller_false() -> u32 {
	sink(false)
}
pub struct Cfg {
	pub test: bool,
}
pub fn caller_field(c: &Cfg) -> u32 {
	sink(c.test)
}
pub fn make_cfg() -> Cfg {
	Cfg { test: true }
}

/// stale value across "lock sections" is covered by the rule-level mutants; here: shared mutex pair
pub fn share(m: Arc<Mutex<u32>>) -> u32 {
	let g = m.lock().unwrap();
	*g
}
