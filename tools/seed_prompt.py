#!/usr/bin/env python3
"""usage: tools/seed_prompt.py Cxx [suffix] [extra]  -> writes /tmp/seed/prompt_<id><suffix>.txt (mkdir -p /tmp/seed first)
(the prompt contains only the property's text; nothing from /verif)"""
import json, sys
pid = sys.argv[1]
suf = sys.argv[2] if len(sys.argv) > 2 else ""
extra = sys.argv[3] if len(sys.argv) > 3 else ""
import os
tpl = open(os.path.join(os.path.dirname(os.path.abspath(__file__)), "seed_template.txt")).read()
for l in open("/verif/properties.jsonl"):
    p = json.loads(l)
    if p["id"] == pid:
        q = p["quantifier"]["text"]
        pass
        s = tpl.format(wt="/tmp/seed/%s%s" % (pid, suf), tg="/tmp/seed/target-%s%s" % (pid, suf), pid=pid, title=p["title"], statement=p["statement"], qtext=q.rstrip("."))
        if extra:
            s += "\n" + extra
        open("/tmp/seed/prompt_%s%s.txt" % (pid, suf), "w").write(s)
        print(len(s))
