#!/bin/bash
# usage: tools/mut.sh "<sed -i expression>" <file relative to repo> <Cxx> [Cxx...]
# applies a one-off edit to a scratch copy of /repo and runs the given checks against it
set -e
D=/tmp/gwmut
mkdir -p $D
rsync -a --delete --exclude target --exclude .git /repo/ $D/repo/
expr="$1"; file="$2"; shift 2
if [ "$expr" = "patch" ]; then (cd $D/repo && git apply --unsafe-paths "$file" 2>/dev/null || patch -p1 < "$file"); else sed -i "$expr" $D/repo/$file; fi
(cd $D/repo && diff -ru /repo/$file $D/repo/$file | head -30) || true
for p in "$@"; do GW_REPO=$D/repo /verif/bin/check $p 2>&1 | grep -E "^(finding|check-error|C[0-9]+:|VIOLATION)" | cut -c1-400; done
