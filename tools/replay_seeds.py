#!/usr/bin/env python3
"""Replay every stored seeded change against the checks (scratch copy of /repo under /tmp, removed afterwards).
usage: tools/replay_seeds.py [seed-id ...]   exit 0 iff every seed is reported by its property's check."""
import glob, json, os, shutil, subprocess, sys, tempfile
V = "/verif"
ids = sys.argv[1:] or sorted(os.path.basename(d) for d in glob.glob(V + "/seeded/*") if os.path.isdir(d))
base = tempfile.mkdtemp(prefix="gwseed-", dir="/tmp")
repo = os.path.join(base, "repo")
bad = 0
try:
    for sid in ids:
        meta = json.load(open("%s/seeded/%s/meta.json" % (V, sid)))
        # a change can break the property its author was given only in the author's reading and be a plain
        # violation of a sibling property: meta.json then names the check that is expected to report it
        prop = meta.get("check_property", meta["property"])
        subprocess.run(["rsync", "-a", "--delete", "--exclude", "target", "--exclude", ".git", "--exclude", "test_output", "/repo/", repo + "/"])
        r = subprocess.run(["patch", "-p1", "-s", "-i", "%s/seeded/%s/patch.diff" % (V, sid)], cwd=repo, capture_output=True, text=True)
        if r.returncode != 0:
            print("seed %-5s %s: patch does not apply to the current tree: %s" % (sid, prop, (r.stdout + r.stderr)[:120].replace("\n", " ")))
            bad += 1
            continue
        env = dict(os.environ, GW_REPO=repo, GW_MUTANT_RUN="1")
        out = subprocess.run([sys.executable, V + "/bin/check_all", prop], env=env, capture_output=True, text=True).stdout
        found = [l.split(" ", 1)[1] for l in out.splitlines() if l.startswith("MUTANT-FINDING ") or l.startswith("MUTANT-ERROR ")]
        print("seed %-5s %s: %s" % (sid, prop, ("reported: " + found[0][:150]) if found else "NOT REPORTED"))
        if not found:
            bad += 1
finally:
    shutil.rmtree(base, ignore_errors=True)
sys.exit(1 if bad else 0)
