#!/bin/bash
# Run every registered quick check on the current /repo tree (must be clean) and summarise.
cd /verif
if [ -n "$(git -C /repo status --short)" ]; then echo "WARNING: /repo working tree is not clean"; git -C /repo status --short | head; fi
for p in $(python3 -c "import json;print(' '.join(c['property_id'] for c in json.load(open('MANIFEST.json'))['checks']))") "$@"; do
  out=$(bin/check $p --tier quick 2>&1); rc=$?
  echo "$p rc=$rc $(echo "$out" | tail -1)"
  if [ $rc -ne 0 ]; then echo "$out" | grep -E "^VIOLATION|^finding|^check-error" | head -5; fi
done
