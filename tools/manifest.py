#!/usr/bin/env python3
"""Regenerate MANIFEST.json from the table below."""
import json, os
HERE = os.path.dirname(os.path.dirname(os.path.abspath(__file__)))
ids = [json.loads(l)["id"] for l in open(os.path.join(HERE, "properties.jsonl"))]

TRUST = ("rustc nightly mir_built is a faithful CFG of /repo's source for the dev profile; dependencies (grin_core, grin_keychain, "
         "grin_store/LMDB, ring, age, serde_json) are not analysed beyond the printed tables; guards are recognised by a finite idiom list "
         "and an unrecognised idiom fails closed; only the structural clauses named in DESIGN.md are decided, not the numeric/cryptographic/"
         "history-level parts of the statement")

CLAIMS = {
 "C02": ("CFG must-pass-through (cut-set reachability on mir_built) + value-flow provenance", "4 C02",
         "Every path to the produced transaction/signature takes the Ok-edge of check_fees, kernel verify, tx.validate, verify_part_sigs, verify_completed_sig; finalize pipeline order in foreign::finalize_tx; amount/fee/inputs/outputs restored from the wallet's own context; stored slate is the returned slate. Necessary structural conditions, decided for all paths of the current source; consensus validity and signature arithmetic themselves are not decided."),
 "C05": ("path-sensitive enumeration over enum literals (effect-by-variant) + cut-set reachability + batch typestate", "4 C05",
         "cancel_tx reaches the rollback only with exactly one entry, type in {TxSent,TxReceived,TxReverted} and !confirmed, before any effect; the rollback's per-status and per-type tables equal the statement's table (exhaustive path enumeration of the loop body); one batch/one commit. Balance equality is not decided."),
 "C13": ("cut-set reachability on the async body's mir_built CFG + value flow", "4 C13",
         "OwnerRpc dispatch is unreachable without (plaintext init_secure_api | decrypt_request Ok); decrypt Ok requires AEAD open Ok under the handler's key; with was_encrypted set the reply leaves only through encrypt_response Ok; key rotation; single dispatcher. AES-GCM/HTTP not decided."),
 "C14": ("cut-set reachability + field-access table + interprocedural mask-argument binding", "4 C14",
         "keychain() returns Ok only on the checksum-equal edge over the masked clone; the raw keychain field and raw store writes do not escape; every function given a mask forwards that same mask (211 call sites); every Owner method with a mask consults it; closed wallet errs. Behavioural equality with an unmasked wallet is not decided."),
 "C11": ("cut-set reachability + comparison/operand provenance + interprocedural backward slice of the slate parameter", "4 C11",
         "Sender-side verifier: from the proof arm, Ok is unreachable without each of (stored request present, derivation index, sender-address equality, receiver-address equality vs the stored request, signature present, verify Ok over payment_proof_message); the verifier sits between complete_tx and update_stored_tx; exported-proof verifier needs kernel-on-chain and both signatures; one message format at all call sites; export completeness; R6 traces where the stored 'requested receiver' comes from (3 known findings: it comes from the counterparty's reply in the sync/late-lock orders). ed25519 unforgeability and value-level equality not decided."),
 "C17": ("cut-set reachability (no effect before check_ttl Ok) + comparison-shape analysis of the TTL boundary + sibling table of slate-taking entry points", "4 C17",
         "Every api_impl entry point that takes a counterparty slate and reaches an effect is in the step table and its first effect needs the Ok-edge of check_ttl on the incoming slate; refusal edge <=> cutoff != 0 and last_confirmed_height >= cutoff; step-5 cancel <=> tip >= cutoff on outstanding entries; both log-entry creators record the cutoff."),
 "C07": ("interprocedural effect summaries over the resolved call graph + cut-set reachability + struct-literal provenance", "4 C07",
         "Per ForeignRpc method the set of reachable storage effects is within its table (check_version none; build_coinbase/receive_tx only add records); records written are fresh (fresh key, Unconfirmed) or the guarded coinbase candidate (repaired defect); receive_tx effects need check_ttl Ok and the no-duplicate edge; finalize effects need a stored context; effects before complete_tx Ok are reported (3 known findings: late-lock ordering). Balance arithmetic not decided."),
 "C10": ("cut-set reachability + field read/write tables of encoders vs try_encrypt_payload", "4 C10",
         "Every path to mode=1 clears the plaintext sender, encrypts metadata++payload and replaces the payload by the age output; no sender-bearing field that an encoder serialises is left set (repaired defect); decrypt results are written only after age decrypt + full read Ok and errors propagate; armor decode needs header, footer, full checksum equality with the encoder's generate_check. AEAD/checksum strength not decided."),
 "C15": ("struct-literal / producer provenance of key ids + cut-set reachability + comparison shape + who-may-call", "4 C15",
         "Key ids of every saved output come from next_child (directly, through the context, or the guarded coinbase candidate / chain rewind data); next_child returns only after save_child_index+commit Ok with the pre-increment index; only next_child and scan move the index, scan only forwards to max+1; no caller swallows a failed bump. Uniqueness over histories as such is not decided."),
 "C12": ("ADT field tables (XOR masking symmetry, secret-type closure of outward types) + cut-set reachability + producer provenance + backward flag-root analysis", "4 C12",
         "Each SecretKey field of the stored Context is masked in save and get (2 known findings: initial_sec_*); outward types contain no secret types; the seed file is written only as the sealed EncryptedWalletSeed; decrypt Ok needs AEAD open Ok; password change/recovery order constraints; Context literals only in with_excess with thread_rng/create_secnonce on the production edge, writers of context secrets tabled; every root of use_test_rng is literal false (or true under a flag whose roots are false). RNG quality, nonce collision and byte-level leakage are not decided."),
 "C01": ("panic-site reachability with guard discharge + effect summaries/cut sets + path-enumerated truth table of eligible_to_spend + fee/change provenance", "4 C01",
         "Every panic-capable site in selection / slate construction reachable from the send entry points is discharged by a recognised dominating guard, allow-listed with a read reason (counted) or reported (6 defects repaired); initiation cannot reach lock_output and saves its context only after selection succeeded; candidates are the source account's outputs passing eligible_to_spend, whose truth table (per status x coinbase x lock height) is enumerated; fee is a tx_fee(coins.len(), ..) result. The conservation equation itself is numeric and not decided."),
 "C09": ("panic-site reachability over the resolved call graph with decoding callback edges, guard discharge, counted allow-list; effect-freedom of decoders", "4 C09",
         "From 630 decoder entry points (slatepack/armor/slate JSON and binary, addresses, payment proofs, both JSON-RPC listeners incl. the generated parameter decoding, the remote wallet's HTTP reply) every reachable panic-capable site is auto-discharged, allow-listed with a reason and a frozen count, or reported (9 defect groups repaired in /repo); allocation sizes derive from bounded-width reads; no wallet effect is reachable from a decoder. Panics inside dependencies are out of reach (no MIR)."),
 "C03": ("who-may-call / field-writer tables + dominance of status guards at the lock step + sibling cross-check of duplicate tests + call-site multiplicity", "4 C03",
         "Only lock_tx_context (and the mwixnet request) reserve outputs and every writer of OutputData.status is tabled; the lock step re-checks that the freshly read input is neither Locked nor Spent and each slate-taking step recognises a replay (existing entry for the slate id) before any effect (both repaired defects); selection never returns Locked/Spent outputs; one log entry and one output per step. Exclusivity over all interleaved histories is not decided as such."),
 "C04": ("table of all consumers of iter()/tx_log_iter() with closure path enumeration of the account predicate + path-enumerated partition of retrieve_info + accumulator dependency sets + batch typestate", "4 C04",
         "Every consumer of the record iterators filters on the account argument (true only via the equality edge) or is tabled with a reason; per output status at most one balance accumulator is incremented and each WalletInfo figure is fed by exactly the accumulators the statement names; a refresh is one batch and writes nothing when the node is behind. Equality with the node's UTXO set and the ledger identity are not decided."),
 "C06": ("batch typestate per atomic group + dropped-Result detection over all storage/file effects + taint of file buffers into panic sites + panic-site analysis of query paths", "4 C06",
         "Seven atomic groups each use one batch and one commit with the side file written after the commit; every locker also logs (1 known finding: mwixnet request); no Result of a storage or file-system effect is dropped (186 call sites; 1 defect repaired); values parsed from a possibly truncated file are never unwrapped (defect repaired); query paths used after reopening do not panic on the wallet's own records. Enumeration of crash points as executions is not done."),
 "C18": ("path-enumerated transition tables of the output state machine + cut-set guards of the refresh branches", "4 C18",
         "eligible_to_spend is false for Reverted; Reverted value feeds only amount_reverted; mark_unspent/mark_spent/mark_reverted have exactly the statement's transition tables; in a refresh mark_reverted needs (absent from node, not coinbase, log id in reverted_kernels) and a kernel counts as reverted only on the node's Ok(None); re-confirmation restores the entry. Fork histories are not decided."),
 "C19": ("per-criterion table: query field -> entry fields and normalised comparison operator, extracted from the filter closures; path enumeration of the None edges; account predicate", "4 C19",
         "Each of the 18 query fields is read by exactly one filter closure that compares the documented entry field(s) with the documented inclusive operator / variant set, returns true when the criterion is absent, and both query paths restrict to the account argument (two defects repaired); limit, sort field and direction are applied; legacy look-ups compare id / slate id. Sort stability is not decided."),
 "C08": ("codec automata (NFA inclusion writer subset-of reader over primitive ops) + flag/field tables + path-enumerated enum tables + conversion field maps + serde default/skip shape matching + sibling constant sets + truncating-cast guards", "4 C08",
         "For 19 Writeable/Readable pairs every token string the writer can emit is accepted by the reader (and conversely for fixed layouts); each optional-field flag is set from, guards and is read into the same field; the u8/string/enum tables are mutually inverse bijections; Slate<->SlateV4 field maps are total and inverse; every skip_serializing_if has a default satisfying it; the sets of kernel features that carry arguments agree across siblings (3 known findings: NRD / tx_from_slate_v4); length prefixes are bound-checked (2 defects repaired). Value-level equality of round trips is not decided."),
 "C20": ("lock analysis: wallet-lock sections (guard live ranges), value flow of records across sections, held-while-acquire graph over all mutex identities through the resolved call graph", "4 C20",
         "R1: no record obtained inside one wallet-lock section flows into a save/delete/lock written in a different section (36 read-to-write flows; 6 known findings in update_wallet_state/update_txs_via_kernel/scan, witnessed); R2: the held-while-acquire graph over the wallet mutex, the global secp mutex (including the momentary lock inside static_secp_instance), Owner.tor_config, the keychain-mask and shared-key mutexes and the updater flags is acyclic, so no interleaving of these operations can deadlock on them (3 cycles found, witnessed and repaired in /repo). Both are necessary conditions; serialisability of all interleavings as such is not decided."),
 "C16": ("struct-literal field provenance + comparison-shape / dataflow analysis of the paging loop + cut-set guards of the repair branches", "5 and 11.7 C16",
         "Structural necessary conditions only: every field of the OutputResult built from a chain output and of the OutputData saved by restore_missing_output comes from the corresponding chain / rewind datum (value, height, coinbase flag, maturity on the coinbase edge, mmr index, key id, account = parent path, status Unspent); the PMMR paging loop leaves only on highest_index <= last_retrieved_index, continues at last_retrieved_index + 1 and consumes every batch before the test; scan() restores missing outputs and un-spends on-chain outputs always, unlocks / deletes only under delete_unconfirmed, classifies by status, and compares the records of every account including spent ones. Completeness over chain histories, equality of totals and idempotence are not decided."),
}

checks = []
for pid, (tech, ref, text) in sorted(CLAIMS.items()):
    checks.append({
        "property_id": pid,
        "quick_cmd": "bin/check %s --tier quick" % pid,
        "thorough_cmd": "bin/check %s --tier thorough" % pid,
        "evidence_file": "evidence/%s.json" % pid,
        "engine": "gw",
        "level_claimed": {"category": "other", "text": text + " Clauses added during the build (after seeded changes and after defects found on the unchanged tree) are decided the same way; the current list of rules with their instance counts is DESIGN.md section 11.8.", "design_ref": "DESIGN.md section " + ref},
        "level_note": TRUST,
        "technique": "static analysis: " + tech,
    })
NA = {
}
na = []
for i in ids:
    if i in CLAIMS:
        continue
    na.append({"property_id": i, "reason": NA.get(i, "check not yet armed (build in progress); see DESIGN.md section 4")})
m = {
 "version": 1,
 "setup_cmd": "bin/setup",
 "hooks": {"guard": "grin_wallet_verif", "enable": "none needed: static analysis reads /repo through a rustc_private driver (RUSTC_WORKSPACE_WRAPPER); no instrumentation in /repo",
           "baseline_off_cmd": "cd /repo && cargo test --workspace --no-fail-fast --offline", "source_commits": [], "add_only": True},
 "engines": [{"name": "gw", "path": "gw/ (Python rules) + driver/ (rustc_private fact extractor)", "serves_properties": sorted(CLAIMS), "kind_free_text": "static analysis over rustc mir_built facts: call graph, CFG cut sets, value flow, path enumeration"}],
 "checks": checks,
 "not_applicable": na,
 "notes": "All checks are static: they re-extract facts from /repo's current working tree (cargo +nightly check with a rustc_private wrapper, ~10 s warm) and never execute wallet code.",
}
json.dump(m, open(os.path.join(HERE, "MANIFEST.json"), "w"), indent=1)
print("claimed:", sorted(CLAIMS), "n/a:", [x["property_id"] for x in na])
