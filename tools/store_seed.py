#!/usr/bin/env python3
"""usage: store_seed.py <id> <worktree> <demo relative path> <property> <breaks> <needs> <detected_by>"""
import json, os, shutil, sys
sid, wt, demo, prop, breaks, needs, det = sys.argv[1:8]
d = os.path.join("/verif/seeded", sid)
os.makedirs(d, exist_ok=True)
shutil.copy(os.path.join(wt, "OUT", "patch.diff"), os.path.join(d, "patch.diff"))
src = os.path.join(wt, demo)
shutil.copy(src, os.path.join(d, os.path.basename(demo)))
if os.path.exists(os.path.join(wt, "OUT", "notes.md")):
    shutil.copy(os.path.join(wt, "OUT", "notes.md"), os.path.join(d, "agent_notes.md"))
log = "/tmp/seed/%s_confirm.log" % sid
if os.path.exists(log):
    shutil.copy(log, os.path.join(d, "confirm.log"))
json.dump({"property": prop, "breaks": breaks, "needs": needs, "demo": "%s (copy: %s)" % (demo, os.path.basename(demo)),
           "confirmed": "scratch worktree %s with tools/confirm_seed.sh: demo FAILS with the change, the existing suite is otherwise all ok with the change, demo PASSES without it (confirm.log)" % wt,
           "detected_by": det.split(" || "),
           "ran": "git -C /repo apply seeded/%s/patch.diff; bin/check %s (VIOLATION as listed); git -C /repo checkout -- . (silent again)" % (sid, prop)},
          open(os.path.join(d, "meta.json"), "w"), indent=1)
print(os.listdir(d))
