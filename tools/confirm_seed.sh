#!/bin/bash
# usage: tools/confirm_seed.sh <worktree-dir> <target-dir> <test-package> <test-name> <patch.diff>
# Confirms a seeded change: demo fails with the change, passes without; existing suite passes with the change.
WT=$1; TG=$2; PKG=$3; TST=$4; PATCH=$5
export CARGO_NET_OFFLINE=true CARGO_TARGET_DIR=$TG
cd $WT || exit 2
echo "== state: change applied? =="; git diff --stat -- . ':!OUT' | tail -3
echo "== demo WITH change (expected: FAIL) =="
cargo test --offline -p $PKG --test $TST -- --test-threads 1 2>&1 | grep -E "^test |test result|panicked" | head -20
echo "== existing suite WITH change (expected: all ok) =="
cargo test --workspace --no-fail-fast --offline 2>&1 | grep -E "^test result|FAILED|failed" | sort | uniq -c | grep -v " ok\. 0 passed" | head -40
echo "== removing the change =="
git apply -R $PATCH && git diff --stat -- . ':!OUT' | tail -3
echo "== demo WITHOUT change (expected: PASS) =="
cargo test --offline -p $PKG --test $TST -- --test-threads 1 2>&1 | grep -E "^test |test result|panicked" | head -20
git apply $PATCH
echo "== done =="
