#!/usr/bin/env python3
"""Regenerates DESIGN.md section 11.8 (rule inventory) from a fresh run of every check on /repo's current tree.
usage: tools/rule_inventory.py [--write]"""
import json, os, re, subprocess, sys
HERE = os.path.dirname(os.path.dirname(os.path.abspath(__file__)))
props = ["C%02d" % i for i in range(1, 21)]
lines = []
tr = ti = 0
for p in props:
    out = subprocess.run([os.path.join(HERE, "bin", "check"), p], capture_output=True, text=True).stdout
    ev = json.load(open(os.path.join(HERE, "evidence", p + ".json")))
    expl = ev["coverage"]["explanation"]
    desc = {}
    body = expl.split("rules: ", 1)[1] if "rules: " in expl else ""
    ids = list(re.finditer(r"(%s\.R\d+[a-z]?): " % p, body))
    for i, m in enumerate(ids):
        end = ids[i + 1].start() if i + 1 < len(ids) else len(body)
        desc[m.group(1)] = body[m.end():end].rstrip("; ").strip()
    tot = re.search(r"^%s: (\d+) obligations, (\d+) discharged, (\d+) known" % p, out, re.M)
    lines.append("* **%s** — %s obligations, %s discharged%s" % (p, tot.group(1), tot.group(2), (", %s known finding(s)" % tot.group(3)) if tot.group(3) != "0" else ""))
    for m in re.finditer(r"^rule (\S+)\s+.*?instances=(\d+) held=(\d+) floor=(\d+)", out, re.M):
        rid, n, h, fl = m.groups()
        tr += 1
        ti += int(n)
        lines.append("  * `%s` %s (%s) ≥ %s — %s" % (rid, n, h, fl, desc.get(rid, "")))
text = "\n".join(lines)
summary = "%d rules, %d instances decided on the current tree." % (tr, ti)
print(summary)
if "--write" in sys.argv:
    d = open(os.path.join(HERE, "DESIGN.md")).read()
    a = d.index("### 11.8 Rule inventory")
    head_end = d.index("* **C01**", a)
    nxt = re.search(r"^#{2,3} ", d[head_end:], re.M)
    end = head_end + nxt.start() if nxt else len(d)
    d = d[:head_end] + text + "\n\n" + summary + "\n\n" + d[end:]
    open(os.path.join(HERE, "DESIGN.md"), "w").write(d)
else:
    print(text[:3000])
